"""C10 - imports resolve to what Python's import system would load.

Streams
  dotted         sys_path.transform_path_to_dotted vs Model.Imports.transformPathToDotted (pure, exhaustive
                 over a small alphabet of sys.path lists x module paths; includes the F4 input)
  importer       imports.Importer.__init__ level rewriting vs Model.Imports.Importer.init, and the model's
                 resolveName vs importlib._bootstrap._resolve_name
  find           subprocess.functions.get_module_info (= importlib's PathFinder) vs Model.Imports.pyFind on
                 generated trees (validates the model of the finder, which is CPython's)
  resolve        generated trees (modules, regular / namespace packages, clashes, several roots in either
                 order) x import forms from a top-level script and from modules inside packages:
                 Script.infer / goto(follow_imports=True) vs Model (Importer.init + follow + attribute-first)
  oracle-resolve the same answers vs the real import system run in a clean interpreter with that sys.path
  starchain      layouts with CHAINS of star imports (relative / absolute inner links, same-named siblings in the
                 starting package): ModuleMixin.star_imports() of the starting module vs Model.StarChain; the
                 names reached only through the chain are judged by oracle-resolve (forms starchain / from-starchain)
  oracle-dotted  for every file of the tree: the dotted name jedi derives imports back to that file
"""
import itertools
import json
import os
import subprocess
import sys
from pathlib import Path, PurePosixPath

import common
from common import short
from gen import scratch
from gen.scratch import B, Scratch

MODELS = ['Imports', 'StarChain']
MANIFEST = dict(
    text='Theorems over the model of Importer.__init__ (level rewriting), import_module_by_names/import_module '
         '(the fold over the dotted name, finder as parameter), infer_import (attribute first, then sub-module) and '
         'transform_path_to_dotted, against a Lean transcription of importlib._bootstrap._resolve_name and of '
         'PathFinder/FileFinder on a file-system model: the rewritten path equals _resolve_name whenever that '
         'succeeds and jedi is in its heuristic branch exactly when it raises; the fold with importlib\'s finder '
         'equals pyImport on the whole dotted name and is empty as soon as one step is; from-import agrees with '
         'Python\'s attribute-then-submodule rule; every dotted name derived under the separator-boundary '
         'hypothesis spells the path below its sys.path entry (kernel-checked counter-witness /foo/ba vs /foo/bar '
         'for the unrestricted statement, F4), and the first shortest candidate is returned.  Chains of star imports '
         '(Model.StarChain = ModuleMixin.star_imports, recursion shape read from the source): every link is resolved '
         'against the package of the module that contains it, the modules listed are exactly those whose names '
         'executing the modules copies (star_chain_sound / _complete / star_chain_names_eq_python), kernel-checked '
         'witness for a recursion that hands the root module\'s context down.',
    note='Modelled not verified: importlib (finder = parameter; its model pyFind is validated by stream find), '
         'module caches, stub lookup, old-style declare_namespace packages, compiled modules, zip imports, '
         'sys.path modifications detected in the source.',
    technique='Lean 4 proof over hand-written model + translator-generated constants + differential '
              'correspondence on generated directory trees (incl. star-import chains: stream starchain) + importlib in a '
              'clean interpreter as oracle',
    design='5.C10')
LEAN_TARGETS = ['JediModel.Props.C10', 'JediModel.Drivers.C10']

NAMES = ['zqa', 'zqb', 'zqc']
HERE = os.path.dirname(os.path.abspath(__file__))
PY_ORACLE = os.path.join(os.path.dirname(HERE), 'gen', 'py_import_oracle.py')


def parts(p):
    return list(PurePosixPath(p).parts)


def unparts(ps):
    return str(PurePosixPath(*ps)) if ps else '.'


# ----------------------------------------------------------------- stream: dotted (pure)

def stream_dotted(ctx, reqs):
    from jedi.inference.sys_path import transform_path_to_dotted
    entries = ['/foo', '/foo/ba', '/foo/bar', '/foo/', '/fo', '/', '/x', '/foo/bar/baz']
    mods = ['/foo/bar/baz.py', '/foo/bar/__init__.py', '/foo/bar/baz/__init__.py', '/foo/bar/.hid.py',
            '/foo/bar-stubs/baz.pyi', '/foo/bar/baz.so', '/foo/bar/baz', '/foo/bar/a.b.py', '/foo/bar.py',
            '/foo/bar/baz.pyc', '/foo/bar/__init__.pyi', '/foo/ba/r.py', '/y/z.py', '/foo/bar/baz.txt',
            '/foo/bar/baz.cpython-312-x86_64-linux-gnu.so', '/foo/bar/é.py']
    lists = [list(p) for n in range(ctx.size(4, 5)) for p in itertools.permutations(entries, n)]
    rng = ctx.subrng('dotted')
    if ctx.quick:
        lists = lists[:9] + rng.sample(lists[9:], min(250, len(lists) - 9))
    lists.insert(0, ['/foo/ba', '/foo'])
    cases = []
    for sp in lists:
        for m in mods:
            try:
                names, is_pkg = transform_path_to_dotted(sp, Path(m))
                impl = {'names': list(names) if names is not None else None, 'is_package': is_pkg}
            except Exception as e:   # noqa
                impl = {'EXC': type(e).__name__}
            reqs.append({'op': 'dotted', 'sys_path': sp, 'module_path': parts(m)})
            cases.append((('dotted', sp, m), impl))
    return cases


# ----------------------------------------------------------------- stream: importer (pure)

class _FakeValue:
    def __init__(self, pkg):
        self._pkg = pkg

    def py__package__(self):
        return self._pkg


class _FakeProject:
    def __init__(self, path):
        self.path = path


class _FakeState:
    def __init__(self, project_path):
        self.project = _FakeProject(project_path)


class _FakeContext:
    def __init__(self, pkg, file, project_path):
        self._v = _FakeValue(pkg)
        self._file = file
        self.inference_state = _FakeState(project_path)

    def get_value(self):
        return self._v

    def py__file__(self):
        return self._file


def stream_importer(ctx, reqs):
    from jedi.inference import imports
    from importlib._bootstrap import _resolve_name
    rng = ctx.subrng('importer')
    cases = []
    project = Path('/p/q')
    files = [None, Path('/p/q/s.py'), Path('/p/q/a/b/m.py'), Path('/p/q/a/__init__.py'), Path('/m.py'),
             Path('/other/x/y.py')]
    pkgs = [[], ['a'], ['a', 'b'], ['a', 'b', 'c']]
    combos = [(lvl, pkg, f, ip) for lvl in range(0, 5) for pkg in pkgs for f in files
              for ip in ([], ['x'], ['x', 'y'])]
    for lvl, pkg, f, ip in combos:
        mc = _FakeContext(tuple(pkg), f, project)
        try:
            imp = imports.Importer(_FakeState(project), tuple(ip), mc, lvl)
            fixed = imp._fixed_sys_path
            impl = {'import_path': [str(x) for x in imp.import_path],
                    'fixed_sys_path': None if fixed is None else
                    {'dir': parts(str(fixed[0])), 'is_str': isinstance(fixed[0], str)},
                    'infer_possible': imp._infer_possible}
        except Exception as e:   # noqa
            impl = {'EXC': type(e).__name__}
        if lvl >= 1:
            try:
                if not pkg:
                    py = 'no-parent-package'   # _sanity_check / _calc___package__ raise before _resolve_name
                else:
                    py = _resolve_name('.'.join(ip), '.'.join(pkg), lvl).strip('.').split('.')
                    py = [x for x in py if x]
            except ImportError:
                py = 'beyond-top-level'
        else:
            py = None
        reqs.append({'op': 'importer', 'import_path': ip, 'level': lvl, 'pkg': pkg,
                     'file': parts(str(f)) if f else None, 'project': parts(str(project))})
        cases.append((('importer', lvl, pkg, str(f), ip), {'importer': impl, 'resolve_name': py}))
    return cases


# ----------------------------------------------------------------- tree generator

def gen_tree(rng):
    """-> dict(roots, files {rel: content}, dirs [rel], classes {rel: [names]})"""
    files, dirs, classes = {}, set(), {}
    counter = [0]

    def new_class(rel, extra=None):
        counter[0] += 1
        names = ['K%d' % counter[0]] + ([extra] if extra else [])
        classes[rel] = names
        return ''.join('class %s:\n    pass\n' % n for n in names)

    def fill(rel, depth, density):
        for name in NAMES:
            if rng.random() > density:
                continue
            kinds = rng.choice([['mod'], ['mod'], ['pkg'], ['pkg'], ['ns'], ['mod', 'pkg'], ['mod', 'ns']])
            if depth >= 3:
                kinds = ['mod']
            if 'mod' in kinds:
                f = rel + '/' + name + '.py'
                files[f] = new_class(f)
            if 'pkg' in kinds:
                d = rel + '/' + name
                dirs.add(d)
                f = d + '/__init__.py'
                shadow = rng.choice(NAMES) if rng.random() < 0.3 else None
                files[f] = new_class(f, shadow)
                fill(d, depth + 1, density * 0.8)
            if 'ns' in kinds:
                d = rel + '/' + name
                dirs.add(d)
                fill(d, depth + 1, density * 0.8)

    roots = ['r1', 'r2'] + (['r3'] if rng.random() < 0.3 else [])
    for r in roots:
        dirs.add(r)
        fill(r, 1, 0.6)
    order = roots[:]
    rng.shuffle(order)
    if rng.random() < 0.15:
        order.insert(rng.randint(0, len(order)), 'missing')
    return {'roots': order, 'files': files, 'dirs': sorted(dirs), 'classes': classes}


def importer_locations(rng, tree):
    """(relative file or None for the top-level script, python package or None, python module name)"""
    locs = [('s.py', None, None)]
    cands = []
    for f in sorted(tree['files']):
        root, *rest = f.split('/')
        if len(rest) < 2:
            continue
        if rest[-1] == '__init__.py':
            pkg = rest[:-1]
            modname = '.'.join(pkg)
        else:
            pkg = rest[:-1]
            modname = '.'.join(pkg + [rest[-1][:-3]])
        cands.append((f, '.'.join(pkg), modname))
    rng.shuffle(cands)
    return locs + cands[:2]


def gen_queries(rng, tree, loc):
    """import statements to try from one importer"""
    qs = []
    for _ in range(rng.randint(4, 7)):
        n = rng.choice([1, 2, 2, 3])
        names = [rng.choice(NAMES) for _ in range(n)]
        r = rng.random()
        if r < 0.25:
            qs.append({'form': 'import', 'level': 0, 'names': names, 'from_name': None})
        elif r < 0.4:
            qs.append({'form': 'import_as', 'level': 0, 'names': names, 'from_name': None})
        elif r < 0.65 and n >= 2:
            qs.append({'form': 'from', 'level': 0, 'names': names[:-1], 'from_name': names[-1]})
        elif r < 0.95:
            level = rng.choice([1, 1, 2, 3])
            qs.append({'form': 'from', 'level': level, 'names': names[:-1], 'from_name': names[-1]})
        else:
            qs.append({'form': 'from', 'level': 0, 'names': names, 'from_name': 'K0'})
    # star import of a module that defines a class
    mods = [f for f in tree['files'] if f.count('/') <= 3 and not f.endswith('__init__.py')]
    if mods and rng.random() < 0.5:
        f = rng.choice(sorted(mods))
        root, *rest = f.split('/')
        names = rest[:-1] + [rest[-1][:-3]]
        qs.append({'form': 'star', 'level': 0, 'names': names, 'from_name': None,
                   'star_name': tree['classes'][f][0]})
    return qs


def statement(q):
    """-> (code, line, column of the queried name)"""
    dotted = '.'.join(q['names'])
    if q['form'] == 'import':
        code = 'import ' + dotted
        return code, 1, len(code) - 1
    if q['form'] == 'import_as':
        code = 'import %s as zz' % dotted
        return code, 1, len(code) - 1
    if q['form'] == 'from':
        code = 'from %s%s import %s' % ('.' * q['level'], dotted, q['from_name'])
        return code, 1, len(code) - 1
    code = 'from %s import *\n%s' % (dotted, q['star_name'])
    return code, 2, 1


# ----------------------------------------------------------------- star-import chains

SNAMES = ['zqa', 'zqb', 'zqc', 'zqd', 'zqe']


def gen_star_tree(rng):
    """A layout whose names travel through a CHAIN of star imports: an exporting package P whose __init__ does
    `from .X import *` / `from P.X import *`, X (module or package) possibly star-importing a further link Y
    (child, sibling through `..`, or absolute), the last link binding classes and (a package) its sub-module Z by
    `from . import Z`.  The chain is entered from a top-level script, from a module of another package A - which
    has same-named siblings A/X, A/Y, A/Z - and through A/__init__ (`from . import name`).  Every link of the chain
    has to be resolved relative to the module that CONTAINS the statement, which only shows when the starting
    module lives in another package than the inner links."""
    P, A, X, Y, Z = rng.sample(SNAMES, 5)
    roots = ['r1', 'r2']
    ra = rng.choice(roots)
    nested = rng.random() < 0.3            # the exporting package is a sub-package of the starting one
    rp = ra if nested else rng.choice(roots)
    pdot = [A, P] if nested else [P]
    files, info = {}, {}
    counter = [0]

    def kname():
        counter[0] += 1
        return 'K%d' % counter[0]

    def relfile(root, dotted, is_pkg):
        return root + '/' + '/'.join(dotted) + ('/__init__.py' if is_pkg else '.py')

    def put(rel, stars=(), classes=(), binds=()):
        lines = ['from %s%s import *' % ('.' * lvl, '.'.join(path)) for lvl, path in stars]
        lines += ['from . import %s' % b for b in binds]
        lines += ['class %s:\n    pass' % c for c in classes]
        files[rel] = ''.join(x + '\n' for x in lines)
        info[rel] = {'stars': [[lvl, list(path)] for lvl, path in stars], 'defs': list(classes) + list(binds)}

    def taken(root, dotted):
        return relfile(root, dotted, True) in files or relfile(root, dotted, False) in files

    # ---- the chain
    depth = rng.choice([1, 1, 2])          # number of INNER links
    chain = [(pdot, True)]
    links = []
    for n in [X, Y][:depth]:
        cur, cur_pkg = chain[-1]
        options = []
        if cur_pkg:
            options.append((cur + [n], 1))
            if len(cur) >= 2:
                options.append((cur[:-1] + [n], 2))
        else:
            options.append((cur[:-1] + [n], 1))
        options = [o for o in options if not taken(rp, o[0]) and o[0] not in [c for c, _ in chain]]
        target, lvl = rng.choice(options)
        star = (lvl, [n]) if rng.random() < 0.7 else (0, target)
        links.append(star)
        chain.append((target, rng.random() < 0.5))
    names = []
    for i, (dotted, is_pkg) in enumerate(chain):
        last = i == len(chain) - 1
        classes = [kname()] if (last or rng.random() < 0.6) else []
        binds = []
        if last and is_pkg and rng.random() < 0.7:
            binds = [Z]
            put(relfile(rp, dotted + [Z], False), classes=[kname()])
        put(relfile(rp, dotted, is_pkg), stars=[links[i]] if not last else [], classes=classes, binds=binds)
        names += [(c, i) for c in classes + binds]
    all_classes = [c for c, _ in names if c != Z]
    # ---- the starting package and its same-named siblings, decoys at top level of the roots
    a_init = relfile(ra, [A], True)
    a_star = rng.random() < 0.4
    first_abs = (0, pdot)
    first_rel = (1, [P]) if nested else None
    put(a_init, stars=[first_rel if (first_rel and rng.random() < 0.5) else first_abs] if a_star else [])
    for n in (X, Y, Z):
        if rng.random() < 0.65 and not taken(ra, [A, n]):
            put(relfile(ra, [A, n], rng.random() < 0.3),
                classes=all_classes if rng.random() < 0.5 else [kname()])
        if rng.random() < 0.3:
            r = rng.choice(roots)
            if not taken(r, [n]):
                put(relfile(r, [n], False), classes=all_classes if rng.random() < 0.5 else [kname()])
    # ---- importers and their queries
    deep = [c for c, i in names if i == len(chain) - 1]
    importers = []

    def queries(firsts):
        qs = []
        for lvl, path in firsts:
            picked = deep + rng.sample([c for c, _ in names if c not in deep],
                                       min(1, len([c for c, _ in names if c not in deep])))
            for nm in picked:
                if rng.random() < 0.7:
                    qs.append({'form': 'starchain', 'level': lvl, 'names': path, 'from_name': None, 'star_name': nm})
                else:
                    qs.append({'form': 'from-starchain', 'level': lvl, 'names': path, 'from_name': nm})
        return qs

    importers.append(('s.py', None, None, queries([first_abs])))
    run = relfile(ra, [A, 'run'], False)
    files[run] = ''
    info[run] = {'stars': [], 'defs': []}
    importers.append((run, A, A + '.run', queries([first_abs] + ([first_rel] if first_rel else []))))
    if a_star:
        use = relfile(ra, [A, 'use'], False)
        files[use] = ''
        info[use] = {'stars': [], 'defs': []}
        importers.append((use, A, A + '.use', [
            {'form': 'from-starchain', 'level': 1, 'names': [], 'from_name': nm,
             'star_vs_submodule': taken(ra, [A, nm])} for nm in deep] + [
            {'form': 'from-starchain', 'level': 0, 'names': [A], 'from_name': nm,
             'star_vs_submodule': taken(ra, [A, nm])} for nm in deep[:1]]))
    dirs = set(roots)
    for f in files:
        ps = f.split('/')[:-1]
        for i in range(1, len(ps) + 1):
            dirs.add('/'.join(ps[:i]))
    order = roots[:]
    rng.shuffle(order)
    return {'roots': order, 'files': files, 'dirs': sorted(dirs),
            'classes': {f: [d for d in i['defs'] if d.startswith('K')] for f, i in info.items()},
            'tag': 'starchain', 'info': info, 'importers': importers}


def star_statement(q):
    dotted = '.'.join(q['names'])
    if q['form'] == 'starchain':
        return 'from %s%s import *\n%s' % ('.' * q['level'], dotted, q['star_name']), 2, 1
    code = 'from %s%s import %s' % ('.' * q['level'], dotted, q['from_name'])
    return code, 1, len(code) - 1


# ----------------------------------------------------------------- canonical answers

def canon_names(names, base):
    out = []
    for n in names:
        mp = n.module_path
        if n.type == 'namespace':
            # the directories of a namespace package are not part of the public Name API
            try:
                paths = [str(p) for p in n._name._value.py__path__()]
            except Exception:   # noqa
                try:
                    paths = sorted({str(p) for v in n._name.infer() for p in v.py__path__()})
                except Exception:   # noqa
                    paths = ['?']
            out.append({'kind': 'namespace', 'paths': [scratch.unmat_text(p, base) for p in paths]})
        elif n.type == 'module':
            out.append({'kind': 'module', 'file': scratch.unmat_text(str(mp), base) if mp else None})
        elif n.type == 'class':
            out.append({'kind': 'class', 'file': scratch.unmat_text(str(mp), base) if mp else None,
                        'name': n.name})
        else:
            out.append({'kind': n.type, 'file': scratch.unmat_text(str(mp), base) if mp else None,
                        'name': n.name})
    return sorted(out, key=lambda d: json.dumps(d, sort_keys=True))


def canon_model(ans, base):
    out = []
    for t in ans:
        if t['kind'] == 'module':
            out.append({'kind': 'module', 'file': scratch.unmat_text(unparts(t['file']), base)})
        elif t['kind'] == 'namespace':
            out.append({'kind': 'namespace', 'paths': [scratch.unmat_text(unparts(p), base) for p in t['paths']]})
        elif t['kind'] == 'attr':
            out.append({'kind': 'class', 'file': scratch.unmat_text(unparts(t['of']['file']), base),
                        'name': t['name']})
    return sorted(out, key=lambda d: json.dumps(d, sort_keys=True))


def canon_python(r, base):
    if 'error' in r:
        return r
    r = dict(r)
    if 'file' in r:
        r['file'] = scratch.unmat_text(r['file'], base)
    if 'paths' in r:
        r['paths'] = [scratch.unmat_text(p, base) for p in r['paths']]
    return r


def same_answer(jedi_list, py):
    if len(jedi_list) != 1:
        return False
    j = jedi_list[0]
    if j['kind'] == 'namespace' and py.get('kind') == 'namespace':
        return j['paths'] == ['?'] or sorted(j['paths']) == sorted(py['paths'])
    return j == py


def through_importer(pkg, modname, q):
    """does the absolute dotted name of the import start with the importer's own module name
    (the one entry Script._get_module puts into module_cache)?"""
    if not modname:
        return False
    names = list(q['names']) + ([q['from_name']] if q.get('from_name') else [])
    if q['level']:
        base = pkg.split('.') if pkg else []
        if q['level'] > len(base):
            return False
        names = base[:len(base) - (q['level'] - 1)] + names
    own = modname.split('.')
    return names[:len(own)] == own


# ----------------------------------------------------------------- stream: trees

def run_python_oracle(queries):
    if not queries:
        return []
    p = subprocess.run([sys.executable, '-S', '-E', PY_ORACLE], input=json.dumps(queries),
                       capture_output=True, text=True, timeout=600)
    if p.returncode != 0:
        raise common.InfraError('python import oracle failed: ' + p.stderr[-2000:])
    return json.loads(p.stdout)


def fixed_trees():
    """probes kept alive: F4 (string prefix) and the nested-roots / shortest-name heuristic"""
    k = 'class K1:\n    pass\n'
    return [
        {'roots': ['foo/ba', 'foo'], 'files': {'foo/bar/baz.py': k}, 'dirs': ['foo', 'foo/ba', 'foo/bar'],
         'classes': {'foo/bar/baz.py': ['K1']}, 'tag': 'string-prefix'},
        {'roots': ['r1', 'r1/zqa'], 'files': {'r1/zqb.py': k, 'r1/zqa/zqb.py': k.replace('K1', 'K2'),
                                              'r1/zqa/__init__.py': ''},
         'dirs': ['r1', 'r1/zqa'], 'classes': {'r1/zqb.py': ['K1'], 'r1/zqa/zqb.py': ['K2'],
                                               'r1/zqa/__init__.py': []}, 'tag': 'nested-roots'},
        # the shortest candidate is the right one here: zqa.py shadows the directory zqa, so only `zqb` imports
        {'roots': ['r1/zqa', 'r1'], 'files': {'r1/zqa.py': k, 'r1/zqa/zqb.py': k.replace('K1', 'K2')},
         'dirs': ['r1', 'r1/zqa'], 'classes': {'r1/zqa.py': ['K1'], 'r1/zqa/zqb.py': ['K2']},
         'tag': 'nested-roots-shortest-right'},
    ]


def star_world_cases(ctx, reqs, cases, tree, base, project, ti):
    """correspondence stream starchain: the real ModuleMixin.star_imports() of the starting module vs
    Model.StarChain.starImportsOf in the world of modules of the layout (dotted name -> package, star imports)"""
    import jedi
    import parso.cache
    by_name, by_file = {}, {}
    for r in tree['roots']:
        for f in sorted(tree['files']):
            root, *rest = f.split('/')
            if root != r:
                continue
            is_pkg = rest[-1] == '__init__.py'
            name = rest[:-1] if is_pkg else rest[:-1] + [rest[-1][:-3]]
            by_file[f] = name
            if tuple(name) not in by_name:
                i = tree['info'][f]
                by_name[tuple(name)] = {'name': name, 'pkg': name if is_pkg else name[:-1], 'defs': i['defs'],
                                        'stars': [{'level': lvl, 'path': path} for lvl, path in i['stars']]}
    for loc, pkg, modname, qs in tree['importers']:
        firsts = sorted({(q['level'], tuple(q['names'])) for q in qs if q['form'] == 'starchain'})
        for lvl, names in firsts:
            code = 'from %s%s import *\n' % ('.' * lvl, '.'.join(names))
            start = modname.split('.') if modname else ['__main__']
            world = dict(by_name)
            world[tuple(start)] = {'name': start, 'pkg': pkg.split('.') if pkg else [], 'defs': [],
                                   'stars': [{'level': lvl, 'path': list(names)}]}
            try:
                parso.cache.parser_cache.clear()
                script = jedi.Script(code, path=os.path.join(base, loc), project=project)
                impl = []
                for v in script._get_module().star_imports():
                    f = v.py__file__()
                    rel = os.path.relpath(str(f), base) if f is not None else None
                    impl.append(by_file.get(rel, ['?', str(rel)]))
            except Exception as e:   # noqa  totality is C01's business
                cls, site = common.exc_site(e)
                ctx.count('raised', (ti, loc, code), nontrivial=False, bucket='%s@%s' % (cls, site))
                continue
            reqs.append({'op': 'starchain', 'modules': list(world.values()), 'start': start, 'fuel': 8})
            cases.append((('starchain', {'roots': tree['roots'], 'files': tree['files'], 'importer': loc,
                                         'code': code}), impl))


def stream_trees(ctx, reqs, sc):
    import importlib
    import jedi
    import parso.cache
    from jedi.inference.compiled.subprocess import functions
    from jedi.inference.sys_path import transform_path_to_dotted
    rng = ctx.subrng('trees')
    cases = []          # correspondence cases (key, impl)
    pending = []        # (python query, record) for the oracle
    trees = fixed_trees() + [gen_tree(rng) for _ in range(ctx.size(45, 900))]
    srng = ctx.subrng('starchains')
    trees += [gen_star_tree(srng) for _ in range(ctx.size(25, 500))]
    for ti, tree in enumerate(trees):
        base = sc.case_dir()
        scratch.build(base, dirs=tree['dirs'], files=sorted(tree['files'].items()))
        scratch.build(base, files=[('s.py', '')])
        sys_path = [os.path.join(base, r) for r in tree['roots']]
        fs_files = [parts(os.path.join(base, f)) for f in sorted(tree['files'])] + [parts(os.path.join(base, 's.py'))]
        fs_dirs = [parts(os.path.join(base, d)) for d in tree['dirs']] + [parts(base)]
        sp_parts = [parts(p) for p in sys_path]
        tag = tree.get('tag', 'generated')
        # ---- find: importlib's finder through jedi's wrapper vs the model of the finder
        importlib.invalidate_caches()
        sys.path_importer_cache.clear()
        if tag == 'generated':
            for name in NAMES:
                try:
                    io, is_pkg = functions.get_module_info(None, sys_path=list(sys_path), string=name,
                                                           full_name=name, is_global_search=True)
                    if is_pkg is None:
                        impl = None
                    elif isinstance(io, functions.ImplicitNSInfo):
                        impl = {'kind': 'namespace', 'paths': [parts(p) for p in io.paths]}
                    else:
                        impl = {'kind': 'module', 'file': parts(str(io.path)), 'package': bool(is_pkg)}
                except Exception as e:   # noqa
                    impl = {'EXC': type(e).__name__}
                reqs.append({'op': 'find', 'files': fs_files, 'dirs': fs_dirs, 'name': name, 'path': sp_parts})
                cases.append((('find', ti, name, tree['roots']), impl))
        # ---- oracle-dotted: every file's derived name must import back to the file
        for f in sorted(tree['files']):
            full = os.path.join(base, f)
            names, is_pkg = transform_path_to_dotted(list(sys_path), Path(full))
            cands = []
            for r in sys_path:
                if full.startswith(r + os.sep):
                    rel = full[len(r) + 1:].split(os.sep)
                    rel = rel[:-1] if rel[-1] == '__init__.py' else rel[:-1] + [rel[-1][:-3]]
                    if rel:
                        cands.append(rel)
            rec = {'kind': 'dotted', 'tree': ti, 'tag': tag, 'file': f, 'full': full, 'base': base,
                   'names': list(names) if names else None, 'roots': tree['roots'], 'n_cands': len(cands),
                   'spec': {'roots': tree['roots'], 'files': sorted(tree['files']), 'file': f}}
            for c in ([list(names)] if names else []) + cands:
                pending.append(({'sys_path': sys_path, 'level': 0, 'names': c, 'from_name': None}, rec))
        # ---- resolve: import statements from several importers
        project = jedi.Project(base, sys_path=list(sys_path), smart_sys_path=False)
        if tag == 'generated':
            plan = [(loc, pkg, modname, [(q,) + statement(q) for q in gen_queries(rng, tree, loc)])
                    for loc, pkg, modname in importer_locations(rng, tree)]
        elif tag == 'starchain':
            plan = [(loc, pkg, modname, [(q,) + star_statement(q) for q in qs])
                    for loc, pkg, modname, qs in tree['importers']]
        else:
            continue
        if tag == 'starchain':
            star_world_cases(ctx, reqs, cases, tree, base, project, ti)
        for loc, pkg, modname, queries in plan:
            path = os.path.join(base, loc)
            if modname:
                # is the importer itself what Python loads under its dotted name?
                pending.append(({'sys_path': sys_path, 'level': 0, 'names': modname.split('.'),
                                 'from_name': None}, {'kind': 'self', 'id': (ti, loc), 'full': path}))
            for q, code, line, col in queries:
                try:
                    # an importer path is reused with different buffers; parso keeps the last buffer of a
                    # path in memory and would serve it as the content of that file to later imports
                    # (editing history is C08's subject, here every query starts from the files on disk)
                    parso.cache.parser_cache.clear()
                    script = jedi.Script(code, path=path, project=project)
                    got_infer = canon_names(script.infer(line, col), base)
                    got_goto = canon_names(script.goto(line, col, follow_imports=True), base)
                except Exception as e:   # noqa  totality is C01's business: counted, not judged
                    cls, site = common.exc_site(e)
                    ctx.count('raised', (ti, loc, code), nontrivial=False, bucket='%s@%s' % (cls, site))
                    continue
                spec = {'roots': tree['roots'], 'files': tree['files'], 'dirs': tree['dirs'],
                        'importer': loc, 'code': code, 'line': line, 'column': col}
                # the analysed buffer replaces the importer file: its on-disk classes are not visible
                defines = [[parts(os.path.join(base, f)), n] for f, ns in sorted(tree['classes'].items())
                           for n in ns if f != loc]
                req = {'op': 'resolve', 'files': fs_files, 'dirs': fs_dirs, 'sys_path': sp_parts,
                       'naming_sys_path': list(sys_path), 'file': parts(path), 'project': parts(base),
                       'level': q['level'], 'import_path': q['names'], 'defines': defines}
                if q['form'] == 'star':
                    req['from_name'] = q['star_name']
                elif q['from_name'] is not None:
                    req['from_name'] = q['from_name']
                if tag == 'generated':
                    reqs.append(req)
                    cases.append((('resolve', spec, base, q['form']), got_infer))
                pq = {'sys_path': sys_path, 'package': pkg, 'modname': modname, 'level': q['level'],
                      'names': q['names'], 'from_name': q['from_name'], 'star_name': q.get('star_name')}
                pending.append((pq, {'kind': 'resolve', 'spec': spec, 'base': base, 'form': q['form'],
                                     'level': q['level'], 'infer': got_infer, 'goto': got_goto,
                                     'toplevel': pkg is None, 'importer_id': (ti, loc),
                                     'through_importer_name': through_importer(pkg, modname, q),
                                     'star_vs_submodule': bool(q.get('star_vs_submodule'))}))
    # one clean interpreter answers every query while the files still exist
    answers = run_python_oracle([q for q, _ in pending])
    judge(ctx, pending, answers)
    return cases


def judge(ctx, pending, answers):
    how = 'materialise spec (files under <B>, sys.path = roots) ; jedi.Script(code, path=<B>/importer, ' \
          'project=Project(<B>, sys_path=roots, smart_sys_path=False)).infer(line, column) / ' \
          '.goto(line, column, follow_imports=True); python: harness/gen/py_import_oracle.py'
    dotted = {}
    shadowed = {}
    for (q, rec), ans in zip(pending, answers):
        if rec['kind'] == 'self':
            shadowed[rec['id']] = not (ans.get('kind') == 'module' and ans.get('file') == rec['full'])
    for (q, rec), ans in zip(pending, answers):
        if rec['kind'] == 'self':
            continue
        if rec['kind'] == 'resolve':
            base = rec['base']
            py = canon_python(ans, base)
            spec = rec['spec']
            # the analysed file is not the module Python loads under the file's own dotted name
            # (an earlier sys.path entry / a package of the same name shadows it)
            case = {'form': rec['form'], 'importer_shadowed': shadowed.get(rec['importer_id'], False),
                    'through_importer_name': rec['through_importer_name'], 'spec': spec}
            if rec.get('star_vs_submodule'):
                # `from pkg import n`: n is bound in pkg/__init__ by a star import AND pkg has a sub-module n
                case['star_bound_name_is_also_submodule'] = True
            bucket = rec['form'] + ('/rel%d' % rec['level'] if rec['level'] else '') + \
                ('/script' if rec['toplevel'] else '/inpkg')
            if 'error' in py:
                if py['error'] == 'ModuleNotFoundError':
                    for label in ('infer', 'goto'):
                        if rec[label]:
                            ctx.fail('oracle-resolve', 'jedi resolves an import that fails with '
                                     'ModuleNotFoundError (%s)' % label, case, expected=py,
                                     observed={'api': label, 'result': rec[label]}, how=how)
                    ctx.count('oracle-resolve', json.dumps(spec, sort_keys=True), nontrivial=True,
                              bucket=bucket + '/MNFE')
                else:
                    ctx.count('oracle-resolve', json.dumps(spec, sort_keys=True), nontrivial=False,
                              bucket=bucket + '/unjudged-' + py['error'])
                continue
            if py.get('kind') == 'class' and py.get('file') == B + '/' + spec['importer']:
                # the class lives in the importer's file on disk, which the analysed buffer replaces
                ctx.count('oracle-resolve', json.dumps(spec, sort_keys=True), nontrivial=False,
                          bucket=bucket + '/unjudged-own-file')
                continue
            for label in ('infer', 'goto'):
                if not same_answer(rec[label], py):
                    ctx.fail('oracle-resolve', 'jedi resolves the import to something else than the import '
                             'system (%s)' % label, case, expected=py,
                             observed={'api': label, 'result': rec[label]}, how=how)
            ctx.count('oracle-resolve', json.dumps(spec, sort_keys=True), nontrivial=True,
                      bucket=bucket + '/' + py['kind'],
                      sample={'code': spec['code'], 'importer': spec['importer'], 'roots': spec['roots'],
                              'python': py})
        else:
            key = (rec['tree'], rec['file'])
            d = dotted.setdefault(key, {'rec': rec, 'answers': []})
            d['answers'].append((q['names'], ans))
    for key, d in dotted.items():
        rec = d['rec']
        full = rec['full']
        good = [n for n, a in d['answers'] if a.get('kind') == 'module' and a.get('file') == full]
        case = {'tag': rec['tag'], 'spec': rec['spec']}
        if rec['names'] is None:
            ctx.count('oracle-dotted', key, nontrivial=False, bucket='no-name')
            if good:
                ctx.fail('oracle-dotted', 'no dotted name derived for an importable file', case,
                         expected=good, observed={'names': None},
                         how='transform_path_to_dotted(sys_path, Path(file)); importlib.import_module(name).__file__')
            continue
        ok = rec['names'] in good
        ctx.count('oracle-dotted', key, nontrivial=True,
                  bucket='ok' if ok else ('shadowed' if not good else 'WRONG'))
        if not ok and good:
            ctx.fail('oracle-dotted', 'the dotted name jedi derives does not import back to the file although '
                     'another name does', case, expected=good, observed={'names': rec['names']},
                     how='transform_path_to_dotted(sys_path, Path(file)); importlib.import_module(name).__file__')


# ----------------------------------------------------------------- compare

def compare(ctx, cases, answers):
    for (key, impl), ans in zip(cases, answers):
        stream = key[0]
        if isinstance(ans, dict) and 'error' in ans:
            raise common.InfraError('driver error: %r' % ans)
        if stream == 'dotted':
            ctx.count('dotted', key, nontrivial=impl.get('names') is not None,
                      bucket='names=%s' % (len(impl['names']) if impl.get('names') else impl.get('names')),
                      sample={'sys_path': key[1], 'module_path': key[2], 'result': impl})
            if ans != impl:
                ctx.tie_broken('correspondence:dotted', short({'case': key[1:], 'impl': impl, 'model': ans}))
        elif stream == 'importer':
            ctx.count('importer', key, nontrivial=key[1] > 0, bucket='level=%d/pkg=%d' % (key[1], len(key[2])))
            if ans != impl:
                ctx.tie_broken('correspondence:importer', short({'case': key[1:], 'impl': impl, 'model': ans}, 800))
        elif stream == 'find':
            ctx.count('find', key, nontrivial=impl is not None,
                      bucket='none' if impl is None else impl.get('kind', 'exc'))
            if ans != impl:
                ctx.tie_broken('correspondence:find', short({'case': key[1:], 'importlib': impl, 'model': ans}, 800))
        elif stream == 'starchain':
            spec = key[1]
            ctx.count('starchain', json.dumps(spec, sort_keys=True), nontrivial=len(impl) >= 2,
                      bucket='modules=%d' % len(impl), sample={'code': spec['code'], 'importer': spec['importer'],
                                                                'star_imports': impl})
            if ans != impl:
                ctx.tie_broken('correspondence:starchain',
                               short({'code': spec['code'], 'importer': spec['importer'], 'roots': spec['roots'],
                                      'files': spec['files'], 'impl': impl, 'model': ans}, 1500))
                # failing-input search: the same layouts and statements are judged by oracle-resolve against importlib
        elif stream == 'resolve':
            spec, base, form = key[1], key[2], key[3]
            model = canon_model(ans, base)
            ctx.count('resolve', json.dumps(spec, sort_keys=True), nontrivial=bool(impl),
                      bucket=form + '/n=%d' % len(impl))
            if model != impl:
                ctx.tie_broken('correspondence:resolve',
                               short({'code': spec['code'], 'importer': spec['importer'], 'roots': spec['roots'],
                                      'files': sorted(spec['files']), 'impl': impl, 'model': model}, 1500))
                # failing-input search: this very input has been judged by oracle-resolve against importlib


def run(ctx):
    reqs = []
    cases = []
    cases += stream_dotted(ctx, reqs)
    cases += stream_importer(ctx, reqs)
    with Scratch('c10') as sc:
        cases += stream_trees(ctx, reqs, sc)
    if ctx.model_ok:
        answers = common.run_driver_parallel('C10', reqs)
        compare(ctx, cases, answers)
    else:
        ctx.notes.append('model did not build: correspondence skipped, oracle only')
    ctx.obligations['assumptions'] = [
        'the finder is importlib itself (jedi calls PathFinder in its helper process); its Lean model pyFind '
        '(regular package > module file > namespace portion per entry, portions accumulate) is validated by stream find',
        'module caches (module_cache / stub_module_cache), stub lookup, declare_namespace-style packages, compiled and '
        'zipped modules, sys.path modifications in the analysed source are outside the model',
        'the oracle runs importlib in a clean interpreter of the same CPython version as jedi\'s default environment',
    ]


def replay(ctx, payload):
    import jedi
    inp = payload['input']
    spec = inp.get('spec', inp)
    with Scratch('c10-replay') as sc:
        base = sc.case_dir()
        files = spec['files']
        if isinstance(files, dict):
            scratch.build(base, dirs=spec.get('dirs', []), files=sorted(files.items()))
        else:
            scratch.build(base, files=[(f, 'class K1:\n    pass\n') for f in files])
        sys_path = [os.path.join(base, r) for r in spec['roots']]
        if 'code' in spec:
            project = jedi.Project(base, sys_path=sys_path, smart_sys_path=False)
            s = jedi.Script(spec['code'], path=os.path.join(base, spec['importer']), project=project)
            print('infer:', canon_names(s.infer(spec['line'], spec['column']), base))
            print('goto :', canon_names(s.goto(spec['line'], spec['column'], follow_imports=True), base))
        elif 'file' in spec:
            from jedi.inference.sys_path import transform_path_to_dotted
            print('transform_path_to_dotted:',
                  transform_path_to_dotted(sys_path, Path(os.path.join(base, spec['file']))))
    print('expected:', payload.get('expected'), 'observed at record time:', payload.get('observed'))
    return 0

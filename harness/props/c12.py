"""C12 - analysing sources with Script never executes them.

Streams
  funnel   every call of imports.import_module made while answering the queries is recorded in the
           harness process (names, sys_path, which loader ran, the path handed to access.load_module)
           and pushed through Model.NoExec.importModule: same action, same path.
  helper   the wrapper's audit hook logs every `import` event of the helper with the sys.path it saw:
           for names the model sends to the real importer the path must be the model's path; sys.path
           object identity and contents logged after every request must never change.
  oracle   generated project trees whose every file writes a sentinel when imported (conftest.py, setup.py,
           sitecustomize.py, usercustomize.py, gi.py / gi package, *.pth, sourceless .pyc, fake extension
           module, packages, and files named like every module jedi's own import statements mention that the
           host cannot resolve - numpydoc/docscrape, colorama, read off the jedi sources under test) whose
           functions and classes carry numpy / sphinx / epydoc / plain docstrings x query and refactoring
           methods (a third of them on the value of a call, an attribute of an instance or a documented
           parameter inside the planted file itself) x project options: no sentinel, no `exec` audit event of
           a project file in host or helper, host sys.path / sys.modules / cwd / os.environ unchanged.
  hostimport  one fresh process per case: directories that hold a package named like jedi's lazily imported
           optional dependency, some on the host's own sys.path, some only on the analysed project's sys
           path (project root, sys_path=, added_sys_path=), a history of 1-3 docstring-consulting queries:
           which directory's package the host executed (log) = Model.NoExec.lazyHistory with the path shape
           the translator read from docstrings._get_numpy_doc_string_cls; the oracle: nothing outside the
           host's own sys.path is executed, sys.path / cwd / environ unchanged.
"""
import gc
import json
import os
import py_compile
import shutil
import sys
import time

import common
from common import short

MODELS = ['NoExec']
MANIFEST = dict(
    text='Theorems over the loader funnel import_module -> _load_builtin_module -> access.load_module: in safe '
         'mode every directory handed to the real importer is on the environment\'s own sys.path '
         '(import_only_from_env, project_dir_not_imported); a finder result with source is parsed and never '
         'imported unless its top-level name is in settings.auto_import_modules (python_files_parsed_only); '
         'load_module / get_module_info leave the helper\'s sys.path the object it was, on every exit path '
         '(sys_path_restored*); the package contains no other __import__/exec/eval call site '
         '(only_import_sites, a table extracted from all of jedi/*.py). Host side: the lazy import of the '
         'optional dependency numpydoc in docstrings._get_numpy_doc_string_cls is resolved against the host\'s '
         'own sys.path only, over every finder, project sys path and history of look-ups '
         '(host_import_only_from_host_path, host_import_history_only_host_path, project_dir_not_executed_by_host, '
         'host_import_at_most_once; witness extended_path_executes_project_witness), and no other place in the '
         'package writes sys.path or imports a foreign module (only_sys_path_write_sites, '
         'only_foreign_import_sites). Tie: translator + correspondence of every import_module call and of the '
         'host-side lazy import in fresh processes + audit hooks in host and helper + sentinel oracle.',
    note='The negative over all code paths of jedi is not a theorem: only the loader funnel is, the rest is '
         'pinned by the extracted table of dynamic-import call sites and observed by audit hooks / sentinels. '
         'The finder (importlib) and the import system itself are parameters.',
    technique='Lean 4 proof over hand-written model + translator-generated constants + differential '
              'correspondence + sentinel/audit-hook oracle',
    design='5.C12')
LEAN_TARGETS = ['JediModel.Props.C12', 'JediModel.Drivers.C12']

WRAPPER = os.path.join(common.VERIF, 'harness', 'helper_wrapper', 'python')
SCRATCH = '/tmp/scratch-c14c12'

ADVERSARIAL = ['conftest', 'setup', 'sitecustomize', 'usercustomize', 'gi', 'normal', 'site', 'test_thing',
               'manage', '__main__']


def load_own_findings(ctx, pid):
    path = os.path.join(common.VERIF, 'known_findings.d', pid + '.json')
    try:
        with open(path, encoding='utf-8') as f:
            own = json.load(f).get('findings', [])
    except FileNotFoundError:
        return
    have = {k['id'] for k in ctx.known}
    ctx.known += [k for k in own if k['id'] not in have and k['property'] == pid]


def sentinel_code(sentdir, name):
    return ("import os as _o\n_f = open(%r + '/' + %r + '.' + str(_o.getpid()), 'a')\n_f.write('x')\n_f.close()\n"
            % (sentdir, name))


DOC_STYLES = ['numpy', 'sphinx', 'epydoc', 'plain', 'none']


def docstrings_for(style, tag):
    """(function docstring, class docstring): the types named are classes of the module itself"""
    t = 'Cls_' + tag
    if style == 'numpy':
        return ('    """\n    Do something.\n\n    Parameters\n    ----------\n    a : %s\n        first\n'
                '    b : int, optional\n\n    Returns\n    -------\n    %s\n        the result\n    """\n' % (t, t),
                '    """\n    Parameters\n    ----------\n    content : %s\n    """\n' % t)
    if style == 'sphinx':
        return ('    """\n    Do something.\n\n    :param a: first\n    :type a: %s\n    :rtype: %s\n    """\n' % (t, t),
                '    """\n    :type content: %s\n    """\n' % t)
    if style == 'epydoc':
        return ('    """\n    Do something.\n\n    @type a: %s\n    @rtype: %s\n    """\n' % (t, t),
                '    """\n    @type content: %s\n    """\n' % t)
    if style == 'plain':
        return ('    """Do something with a and b, give it back."""\n', '    """A class."""\n')
    return ('', '')


def module_body(sentdir, name, style='none'):
    tag = name.replace('.', '_').replace('/', '_')
    fdoc, cdoc = docstrings_for(style, tag)
    return (sentinel_code(sentdir, name) +
            "VALUE_%s = 1\n\n\ndef func_%s(a, b=2):\n%s    return a\n\n\nclass Cls_%s:\n%s    attr = 1\n\n"
            "    def __init__(self, content=None):\n        self.content = content\n\n"
            "    def meth(self, x):\n        return x\n" % (tag, tag, fdoc, tag, cdoc))


def host_import_names(jedi_dir):
    """dotted names that jedi's own `import` statements mention and that the process running jedi cannot
    resolve (optional dependencies, imported lazily in the host): a project file of that name is the only
    candidate such a statement could ever find.  Read off the sources of the jedi under test."""
    import ast
    import importlib.util
    found = set()
    for root_, dirs, files in os.walk(jedi_dir):
        dirs[:] = [x for x in dirs if x not in ('third_party', '__pycache__')]
        for fn in files:
            if not fn.endswith('.py'):
                continue
            try:
                with open(os.path.join(root_, fn), encoding='utf-8') as f:
                    tree = ast.parse(f.read())
            except (OSError, SyntaxError):
                continue
            for n in ast.walk(tree):
                if isinstance(n, ast.Import):
                    names = [a.name for a in n.names]
                elif isinstance(n, ast.ImportFrom) and n.level == 0 and n.module:
                    names = [n.module]
                else:
                    continue
                for nm in names:
                    top = nm.split('.')[0]
                    if top in ('jedi', 'parso', '__main__') or top in sys.modules:
                        continue
                    try:
                        spec = importlib.util.find_spec(top)
                    except (ImportError, ValueError):
                        spec = None
                    if spec is None:
                        found.add(nm)
    return sorted(found)


def make_project(root, rng, host_names=()):
    """returns description of the tree; every importable file writes a sentinel"""
    sent = os.path.join(root, '_sentinels')
    proj = os.path.join(root, 'proj')
    os.makedirs(sent)
    os.makedirs(proj)
    mods = []
    files = {}

    def write(rel, name):
        path = os.path.join(proj, rel)
        os.makedirs(os.path.dirname(path), exist_ok=True)
        text = module_body(sent, name, DOC_STYLES[rng.randrange(len(DOC_STYLES))])
        with open(path, 'w') as f:
            f.write(text)
        files[rel] = text
    names = [n for n in ADVERSARIAL if rng.random() < 0.75]
    if 'gi' not in names and rng.random() < 0.6:
        names.append('gi')
    if 'normal' not in names:
        names.append('normal')
    gi_pkg = rng.random() < 0.5
    for n in names:
        if n == 'gi' and gi_pkg:
            write('gi/__init__.py', 'gi')
            write('gi/repository.py', 'gi.repository')
            mods += ['gi', 'gi.repository']
        else:
            write(n + '.py', n)
            mods.append(n)
    # a package with a submodule and its own conftest
    for n in ('__init__', 'sub', 'conftest'):
        write('pkg/%s.py' % n, 'pkg.' + n)
    mods += ['pkg', 'pkg.sub']
    # files named like the modules jedi itself tries to import in the host (optional dependencies)
    for dotted in host_names:
        if rng.random() < 0.8:
            parts = dotted.split('.')
            for i in range(1, len(parts) + 1):
                sub = '.'.join(parts[:i])
                if sub in mods:
                    continue
                if i < len(parts) or any(o.startswith(sub + '.') for o in host_names) or rng.random() < 0.5:
                    write('/'.join(parts[:i]) + '/__init__.py', sub)
                else:
                    write('/'.join(parts[:i]) + '.py', sub)
                mods.append(sub)
    extras = []
    if rng.random() < 0.7:
        with open(os.path.join(proj, 'evil.pth'), 'w') as f:
            f.write("import os; open(%r + '/pth.' + str(os.getpid()), 'a').write('x')\n" % sent)
        extras.append('evil.pth')
    if rng.random() < 0.7:
        # a real, sourceless byte-code module: importing it would run the sentinel
        src = os.path.join(root, 'pyconly_src.py')
        with open(src, 'w') as f:
            f.write(module_body(sent, 'pyconly'))
        py_compile.compile(src, cfile=os.path.join(proj, 'pyconly.pyc'), doraise=True)
        os.unlink(src)
        mods.append('pyconly')
        extras.append('pyconly.pyc')
    if rng.random() < 0.6:
        import importlib.machinery
        suffix = importlib.machinery.EXTENSION_SUFFIXES[0]
        with open(os.path.join(proj, 'fakeext' + suffix), 'wb') as f:
            f.write(b'\x7fELF not really')
        mods.append('fakeext')
        extras.append('fakeext' + suffix)
    if rng.random() < 0.4:
        # buildout / django look-alikes that jedi reads statically
        os.makedirs(os.path.join(proj, 'bin'))
        with open(os.path.join(proj, 'buildout.cfg'), 'w') as f:
            f.write('[buildout]\n')
        with open(os.path.join(proj, 'bin', 'runner'), 'w') as f:
            f.write('#!/usr/bin/python\n' + sentinel_code(sent, 'bin.runner') +
                    "import sys\nsys.path[0:0] = [%r]\n" % os.path.join(proj, 'pkg'))
        extras.append('buildout')
    pymods = [m for m in mods if m not in ('pyconly', 'fakeext')]
    return {'root': root, 'proj': proj, 'sent': sent, 'mods': mods, 'extras': extras, 'files': files,
            'pymods': pymods}


def make_buffer(desc, rng):
    """source importing the planted files + probe positions"""
    lines = []
    probes = []
    mods = list(desc['mods'])
    rng.shuffle(mods)
    for m in mods:
        tag = m.replace('.', '_')
        style = rng.random()
        if '.' in m and style < 0.5:
            parent, child = m.rsplit('.', 1)
            lines.append('from %s import %s' % (parent, child))
            ref = child
        else:
            lines.append('import %s' % m)
            ref = m
        probes.append((len(lines), len(lines[-1]), 'import'))
        lines.append('%s.VALUE_%s' % (ref, tag))
        probes.append((len(lines), len(lines[-1]), 'attr'))
        if rng.random() < 0.5:
            lines.append('%s.func_%s(' % (ref, tag))
            probes.append((len(lines), len(lines[-1]), 'call'))
        if m in desc.get('pymods', ()) and rng.random() < 0.6:
            # the value of a call / an attribute of an instance: jedi has to look into the function
            lines.append('res_%s = %s.func_%s(%s.VALUE_%s)' % (tag, ref, tag, ref, tag))
            lines.append('res_%s' % tag)
            probes.append((len(lines), len(lines[-1]), 'result'))
            lines.append('obj_%s = %s.Cls_%s(res_%s)' % (tag, ref, tag, tag))
            lines.append('obj_%s.content' % tag)
            probes.append((len(lines), len(lines[-1]), 'instattr'))
    lines.append('from normal import func_normal as fn_alias')
    lines.append('result = fn_alias(1)')
    probes.append((len(lines), 10, 'alias'))
    lines.append('import ')
    probes.append((len(lines), 7, 'import-complete'))
    lines.append('from gi.repository import Gtk')
    probes.append((len(lines), len(lines[-1]), 'gi'))
    probes = [p + (None,) for p in probes]
    # positions inside the planted files themselves (the file is the analysed buffer): a documented parameter
    for rel, text in sorted(desc.get('files', {}).items()):
        if rng.random() < 0.5:
            continue
        tl = text.split('\n')
        for needle, kind in (('    return a', 'param'), ('        self.content = content', 'init-param')):
            if needle in tl:
                probes.append((tl.index(needle) + 1, len(needle), kind, rel))
    return '\n'.join(lines) + '\n', probes


DEEP_KINDS = ('result', 'instattr', 'param', 'init-param')
DEEP_METHODS = ('infer', 'help', 'goto', 'complete', 'get_signatures')


METHODS = ['complete', 'infer', 'goto', 'help', 'get_references', 'get_signatures', 'get_context',
           'get_names', 'get_syntax_errors', 'rename', 'extract_variable', 'inline', 'search',
           'complete_search', 'project_search']


def run_method(jedi, script, project, method, line, col):
    if method == 'get_names':
        return script.get_names(all_scopes=True, references=True)
    if method == 'get_syntax_errors':
        return script.get_syntax_errors()
    if method == 'goto':
        return script.goto(line, col, follow_imports=True)
    if method == 'rename':
        r = script.rename(line, col, new_name='renamed_x')
        r.get_diff()
        return [r]
    if method == 'extract_variable':
        r = script.extract_variable(line, max(0, col - 3), new_name='ex_v', until_line=line, until_column=col)
        r.get_diff()
        return [r]
    if method == 'inline':
        r = script.inline(line, col)
        r.get_diff()
        return [r]
    if method == 'search':
        return list(script.search('VALUE'))
    if method == 'complete_search':
        return list(script.complete_search('func_'))
    if method == 'project_search':
        return list(project.search('Cls_'))[:20]
    return getattr(script, method)(line, col)


# ----------------------------------------------------------------- host side instrumentation

class Host:
    installed = False
    audit = None      # list while recording
    funnel = None

    @classmethod
    def install(cls):
        if cls.installed:
            return
        cls.installed = True

        def hook(event, args):
            rec = cls.audit
            if rec is None:
                return
            if event == 'exec':
                fn = getattr(args[0], 'co_filename', None)
                rec.append(('exec', fn))
            elif event == 'import':
                # (module, filename, sys.path, sys.meta_path, sys.path_hooks): the search path this very
                # import statement of the host is resolved against
                rec.append(('import', (args[0], list(args[2]) if args[2] is not None else None)))
        sys.addaudithook(hook)

        from jedi.inference import imports, compiled
        orig_im = imports.import_module
        orig_lb = imports._load_builtin_module
        orig_lp = imports._load_python_module
        orig_cl = compiled.load_module

        def lb(inference_state, import_names, sys_path):
            cur = cls._cur
            if cur is not None:
                cur['loader'] = 'builtin'
            return orig_lb(inference_state, import_names, sys_path)

        def lp(inference_state, file_io, import_names=None, is_package=False):
            cur = cls._cur
            if cur is not None:
                cur['loader'] = 'python'
                cur['file'] = str(file_io.path)
            return orig_lp(inference_state, file_io, import_names=import_names, is_package=is_package)

        def cl(inference_state, dotted_name, **kwargs):
            cur = cls._cur
            if cur is not None:
                cur['load'] = {'dotted': dotted_name, 'path': [str(p) for p in kwargs.get('sys_path')]}
            return orig_cl(inference_state, dotted_name=dotted_name, **kwargs)

        def im(inference_state, import_names, parent_module_value, sys_path, **kw):
            if cls.funnel is None:
                return orig_im(inference_state, import_names, parent_module_value, sys_path, **kw)
            prev = cls._cur
            cur = {'names': [str(n) for n in import_names], 'loader': None, 'load': None,
                   'sys_path': None, 'cached': False}
            cls._cur = cur
            try:
                res = orig_im(inference_state, import_names, parent_module_value, sys_path, **kw)
            finally:
                cls._cur = prev
            sp = sys_path if sys_path is not None else inference_state.get_sys_path()
            cur['sys_path'] = [str(p) for p in sp]
            cur['unsafe'] = bool(inference_state.project._load_unsafe_extensions)
            cur['env_path'] = [str(p) for p in inference_state.environment.get_sys_path()]
            cur['result'] = [type(v).__name__ for v in res]
            cls.funnel.append(cur)
            return res
        imports._load_builtin_module = lb
        imports._load_python_module = lp
        compiled.load_module = cl
        imports.import_module = im
    _cur = None


def host_state():
    return {'path_id': id(sys.path), 'path': list(sys.path), 'modules': sorted(sys.modules),
            'cwd': os.getcwd(), 'environ': dict(os.environ)}


def run_project_case(case):
    """one generated project, several (method, position, project option) queries; worker process"""
    import random
    import jedi
    from jedi.api.environment import Environment
    Host.install()
    rng = random.Random(case['seed'])
    root = os.path.join(SCRATCH, 'c12-%d-%s' % (os.getpid(), case['id']))
    shutil.rmtree(root, ignore_errors=True)
    os.makedirs(root)
    out = {'id': case['id'], 'queries': [], 'helper': None}
    try:
        desc = make_project(root, rng, case.get('host_names') or ())
        src, probes = make_buffer(desc, rng)
        log_file = os.path.join(root, 'helper.log')
        open(log_file, 'w').close()
        env_vars = dict(os.environ, DAVIDHALTER_JEDI_VERIF='1', JEDI_VERIF_LOG=log_file, JEDI_VERIF_AUDIT='1')
        if case.get('env_lists_project'):
            env_vars['PYTHONPATH'] = desc['proj'] + os.pathsep + env_vars.get('PYTHONPATH', '')
        env = Environment(WRAPPER, env_vars=env_vars)
        proj = desc['proj']
        if case.get('env_lists_project'):
            # with the project on PYTHONPATH the interpreter itself runs sitecustomize/usercustomize at
            # start-up, before any jedi code: not jedi's doing
            out['startup_sentinels'] = sorted(os.listdir(desc['sent']))
            for fn in out['startup_sentinels']:
                os.unlink(os.path.join(desc['sent'], fn))
        options = [
            ('default', dict()),
            ('sys_path', dict(sys_path=[proj] + [p for p in env.get_sys_path() if p])),
            ('added', dict(added_sys_path=[os.path.join(proj, 'pkg')])),
            ('nosmart', dict(smart_sys_path=False)),
        ]
        main_path = os.path.join(proj, 'main_buffer.py')
        # warm-up so that jedi's own lazy imports are behind us
        for m in METHODS:
            try:
                s = jedi.Script('import os\ndef f(a, *b, **c):\n    return a\nvalue = f(os.sep)\nvalue\n',
                                path=os.path.join(root, 'warm.py'),
                                project=jedi.Project(root), environment=env)
                run_method(jedi, s, s._inference_state.project, m, 5, 5)
                run_method(jedi, s, s._inference_state.project, m, 4, 10)
            except Exception:
                pass
        s = None
        gc.collect()
        out['desc'] = {'mods': desc['mods'], 'extras': desc['extras'], 'proj': proj,
                       'files': sorted(desc['files'])}
        out['source'] = src
        todo = []
        for (line, col, kind, rel) in probes:
            for m in METHODS:
                todo.append((m, line, col, kind, rel))
        rng.shuffle(todo)
        # a third of the budget for queries that make jedi look into a function (value of a call, attribute
        # of an instance, a parameter inside its function), the rest over everything
        deep = [t for t in todo if t[3] in DEEP_KINDS and t[0] in DEEP_METHODS][:case['n_queries'] // 3]
        rest = [t for t in todo if t not in deep][:max(0, case['n_queries'] - len(deep))]
        todo = [t for t in todo if t in deep or t in rest]
        for (m, line, col, kind, rel) in todo:
            oname, okw = options[rng.randrange(len(options))]
            with_path = rng.random() < 0.7
            before = host_state()
            Host.audit = []
            Host.funnel = []
            err = None
            try:
                project = jedi.Project(proj, **okw)
                if rel is None:
                    script = jedi.Script(src, path=main_path if with_path else None, project=project,
                                         environment=env)
                else:
                    script = jedi.Script(desc['files'][rel], path=os.path.join(proj, rel) if with_path else None,
                                         project=project, environment=env)
                run_method(jedi, script, project, m, line, col)
            except Exception as e:
                err = common.exc_site(e)
            audit, funnel = Host.audit, Host.funnel
            Host.audit = None
            Host.funnel = None
            script = project = None
            after = host_state()
            sent = sorted(os.listdir(desc['sent']))
            host_imports = []
            for ev, a in audit:
                if ev == 'import' and a[1] is not None:
                    rec_ = [a[0], [p_ for p_ in a[1] if p_ not in before['path']],
                            [p_ for p_ in before['path'] if p_ not in a[1]]]
                    if rec_ not in host_imports:
                        host_imports.append(rec_)
            q = {'method': m, 'line': line, 'column': col, 'kind': kind, 'option': oname, 'file': rel,
                 'host_imports': host_imports,
                 'with_path': with_path, 'err': err, 'funnel': funnel, 'sentinels': sent,
                 'host_exec': sorted({fn for ev, fn in audit if ev == 'exec' and fn and str(fn).startswith(root)}),
                 'changed': []}
            if after['path_id'] != before['path_id'] or after['path'] != before['path']:
                q['changed'].append(['sys.path', before['path'], after['path']])
            if after['modules'] != before['modules']:
                new = [x for x in after['modules'] if x not in before['modules']]
                gone = [x for x in before['modules'] if x not in after['modules']]
                q['changed'].append(['sys.modules', gone, new])
            if after['cwd'] != before['cwd']:
                q['changed'].append(['cwd', before['cwd'], after['cwd']])
            if after['environ'] != before['environ']:
                q['changed'].append(['os.environ',
                                     sorted(set(before['environ'].items()) ^ set(after['environ'].items()))])
            out['queries'].append(q)
            for fn in sent:      # keep later queries judged on their own
                os.unlink(os.path.join(desc['sent'], fn))
        out['env_path'] = [str(p) for p in env.get_sys_path()]
        env = None
        gc.collect()
        events = []
        with open(log_file) as f:
            for line in f:
                try:
                    events.append(json.loads(line))
                except ValueError:
                    pass
        out['helper'] = {
            'exec_project': sorted({e['filename'] for e in events
                                    if e.get('ev') == 'exec' and str(e.get('filename')).startswith(root)}),
            'imports': [[e['module'], e.get('sys_path')] for e in events if e.get('ev') == 'import'],
            'path_ids': sorted({(e.get('sys_path_id'), e.get('sys_path_hash')) for e in events
                                if e.get('ev') == 'req' and 'sys_path_id' in e}),
            'n_req': sum(1 for e in events if e.get('ev') == 'req'),
        }
        out['sentinels_end'] = sorted(os.listdir(desc['sent']))
    finally:
        Host.audit = None
        Host.funnel = None
        shutil.rmtree(root, ignore_errors=True)
    return out


def _worker(case):
    try:
        return run_project_case(case)
    except BaseException as e:
        import traceback
        return {'id': case['id'], 'infra': traceback.format_exc()[-2000:] + repr(e)}


# ----------------------------------------------------------------- host side lazy imports (stream hostimport)

FAKE_DEP = ("import os as _o\n_f = open(%r, 'a')\n_f.write(%r + '\\t' + __name__ + '\\n')\n_f.close()\n\n\n"
            "class NumpyDocString:\n    def __init__(self, doc, config=None):\n"
            "        self._parsed_data = {'Parameters': [], 'Returns': [], 'Yields': []}\n")


def run_hostimport_case(case):
    """fresh process.  Some directories hold a package named like a module jedi imports lazily in the host;
    some of them are on the host's own sys.path, some only on the analysed project's sys path.  A history of
    queries that consult docstrings; which directory's package was executed is read off a log."""
    import random
    import jedi
    from jedi.api.environment import Environment
    rng = random.Random(case['seed'])
    root = os.path.join(SCRATCH, 'c12h-%d-%s' % (os.getpid(), case['id']))
    shutil.rmtree(root, ignore_errors=True)
    os.makedirs(root)
    log = os.path.join(root, 'executed.log')
    open(log, 'w').close()
    out = {'id': case['id']}
    wanted = set(case['host_names']) | {n.split('.')[0] for n in case['host_names']}
    events = []
    active = [True]

    def hook(event, args):
        # an `import` statement of the host whose module is not yet in sys.modules
        if active[0] and event == 'import' and args[0] in wanted:
            events.append(args[0])
    sys.addaudithook(hook)
    host_before = list(sys.path)
    try:
        proj = os.path.join(root, 'proj')
        dirs = [proj] + [os.path.join(root, 'd%d' % i) for i in range(3)]
        for d in dirs:
            os.makedirs(d)
        providers = [d for d in dirs if rng.random() < 0.5]
        if not providers:
            providers = [dirs[rng.randrange(len(dirs))]]
        for d in providers:
            for dotted in case['host_names']:
                parts = dotted.split('.')
                for i in range(1, len(parts) + 1):
                    if i < len(parts) or any(o.startswith(dotted + '.') for o in case['host_names']):
                        f = os.path.join(d, *parts[:i], '__init__.py')
                    else:
                        f = os.path.join(d, *parts[:i]) + '.py'
                    os.makedirs(os.path.dirname(f), exist_ok=True)
                    if not os.path.exists(f):
                        with open(f, 'w') as fh:
                            fh.write(FAKE_DEP % (log, d))
        style = ['numpy', 'plain', 'none', 'sphinx'][rng.randrange(4)]
        lib = module_body(root, 'lib', style).split('\n', 4)[4]     # without the sentinel prologue
        with open(os.path.join(proj, 'lib.py'), 'w') as f:
            f.write(lib)
        main = 'import lib\nres = lib.func_lib(lib.VALUE_lib)\nres\nobj = lib.Cls_lib(res)\nobj.content\n'
        # the host's own configuration: directories other than the project on its sys.path
        host_dirs = [d for d in dirs[1:] if rng.random() < 0.5]
        if rng.random() < 0.5:
            sys.path[0:0] = host_dirs
        else:
            sys.path.extend(host_dirs)
        host_path = list(sys.path)
        env = Environment(sys.executable)
        env_path = [p for p in env.get_sys_path() if p]
        history = []
        for k in range(rng.randrange(1, 4)):
            extra_dirs = [d for d in dirs[1:] if rng.random() < 0.5]
            oname, okw = [('default', dict()),
                          ('sys_path', dict(sys_path=extra_dirs + [proj] + env_path)),
                          ('added', dict(added_sys_path=extra_dirs)),
                          ('nosmart', dict(smart_sys_path=False, sys_path=env_path + extra_dirs))][rng.randrange(4)]
            kind = ['result', 'instattr', 'param'][rng.randrange(3)]
            method = ['infer', 'help', 'complete', 'get_signatures'][rng.randrange(4)]
            before = host_state()
            err = None
            extra = None
            del events[:]
            try:
                project = jedi.Project(proj, **okw)
                if kind == 'param':
                    ll = lib.split('\n')
                    script = jedi.Script(lib, path=os.path.join(proj, 'lib.py'), project=project, environment=env)
                    pos = (ll.index('    return a') + 1, len('    return a'))
                else:
                    script = jedi.Script(main, path=os.path.join(proj, 'main.py'), project=project, environment=env)
                    pos = (3, 3) if kind == 'result' else (5, 11)
                extra = [str(p_) for p_ in script._inference_state.get_sys_path()]
                res = getattr(script, method)(*pos)
                for r_ in res:
                    getattr(r_, 'description', None)
            except Exception as e:
                err = common.exc_site(e)
            after = host_state()
            with open(log) as f:
                seen = [ln.split('\t')[0] for ln in f.read().splitlines()]
            history.append({'option': oname, 'extra_dirs': extra_dirs, 'kind': kind, 'method': method, 'err': err,
                            'project_sys_path': extra, 'looked_up': bool(events),
                            'executed_so_far': [d for i, d in enumerate(seen) if d not in seen[:i]],
                            'sys_path_same': after['path'] == before['path'] and after['path_id'] == before['path_id'],
                            'cwd_env_same': after['cwd'] == before['cwd'] and after['environ'] == before['environ']})
        env = None
        tops = sorted({n.split('.')[0] for n in case['host_names']})
        loaded = {}
        for t in tops:
            m = sys.modules.get(t)
            fn = getattr(m, '__file__', None) if m is not None else None
            if fn:
                loaded[t] = [d for d in dirs if os.path.abspath(fn).startswith(d + os.sep)][:1] or [fn]
        out.update(root=root, dirs=dirs, providers=providers, host_dirs=host_dirs, host_path=host_path,
                   host_before=host_before, history=history, loaded=loaded, style=style)
    finally:
        active[0] = False
        sys.path[:] = host_before
        shutil.rmtree(root, ignore_errors=True)
    return out


def _host_worker(case):
    try:
        return run_hostimport_case(case)
    except BaseException as e:
        import traceback
        return {'id': case['id'], 'infra': traceback.format_exc()[-2000:] + repr(e)}


def found_of(rec):
    """which finder result the recorded call must have had (the finder itself is a parameter)"""
    if rec['loader'] == 'python':
        return 'source'
    if rec['loader'] == 'builtin':
        return 'noSource'
    if any('Namespace' in r for r in rec['result']):
        return 'namespace'
    return 'notFound'


def run(ctx):
    import multiprocessing as mp
    load_own_findings(ctx, 'C12')
    from jedi import settings
    auto = list(settings.auto_import_modules)
    rng = ctx.subrng('projects')
    n_proj = ctx.size(9, 120)
    import jedi
    host_names = host_import_names(os.path.dirname(os.path.abspath(jedi.__file__)))
    ctx.notes.append('C12: names jedi imports in the host that the host cannot resolve: %s' % host_names)
    cases = [{'id': 'p%d' % i, 'seed': '%s-%d' % (ctx.seed, i), 'n_queries': ctx.size(28, 120),
              'host_names': host_names}
             for i in range(n_proj)]
    # corpus first: past findings, regenerated from their seeds
    cdir = os.path.join(common.CORPUS_DIR, 'C12')
    if os.path.isdir(cdir):
        for fn in sorted(os.listdir(cdir)):
            if fn.endswith('.json'):
                with open(os.path.join(cdir, fn)) as f:
                    c = json.load(f)
                cases.insert(0, {'id': 'corpus-' + fn[:-5], 'seed': c['seed'], 'n_queries': ctx.size(20, 60),
                                 'env_lists_project': bool(c.get('env_lists_project')), 'host_names': host_names})
    # the environment itself lists the project (PYTHONPATH): the documented exception of the funnel theorem
    cases.append({'id': 'envlists', 'seed': '%s-envlists' % ctx.seed, 'n_queries': ctx.size(20, 60),
                  'env_lists_project': True, 'host_names': host_names})
    t0 = time.time()
    with mp.get_context('fork').Pool(min(ctx.size(11, 16), len(cases)), maxtasksperchild=4) as pool:
        results = pool.map(_worker, cases, chunksize=1)
    ctx.notes.append('C12: %d projects in %.1f s' % (len(cases), time.time() - t0))
    reqs, keys = [], []
    for c, r in zip(cases, results):
        if 'infra' in r:
            raise common.InfraError('case %s: %s' % (c['id'], r['infra']))
        how = ('build the project described in `project` under a scratch directory (every file writes a sentinel '
               'when imported), jedi.Script(source, path=..., project=jedi.Project(proj, **option), '
               'environment=Environment(helper_wrapper/python)).<method>(line, column); ./check C12 --replay <file>')
        base = {'seed': c['seed'], 'project': r.get('desc'), 'env_lists_project': bool(c.get('env_lists_project')),
                'host_names': c.get('host_names'), 'n_queries': c['n_queries']}
        for q in r['queries']:
            case_d = dict(base, method=q['method'], line=q['line'], column=q['column'], option=q['option'],
                          with_path=q['with_path'], file=q['file'] or 'main_buffer.py')
            if q['err'] is not None:
                ctx.count('raised', (c['seed'], q['method'], q['line']), nontrivial=False,
                          bucket='%s@%s' % tuple(q['err']))
            ctx.count('oracle', (c['seed'], q['method'], q['line'], q['column'], q['option'], q['with_path']),
                      nontrivial=bool(q['funnel']), bucket='%s/%s/%s' % (q['method'], q['kind'], q['option']),
                      sample={'method': q['method'], 'line': q['line'], 'column': q['column'],
                              'option': q['option'], 'n_import_module_calls': len(q['funnel'])})
            if q['sentinels']:
                ctx.fail('oracle', 'a project file was executed (sentinel written)',
                         dict(case_d, symptom='sentinel'), expected=[], observed=q['sentinels'], how=how)
            if q['host_exec']:
                ctx.fail('oracle', 'host process executed code of a project file (audit hook)',
                         dict(case_d, symptom='host-exec'), expected=[], observed=q['host_exec'], how=how)
            for ch in q['changed']:
                if ch[0] == 'sys.modules' and not ch[1] and all(
                        x.split('.')[0] in ('jedi', 'parso') for x in ch[2]):
                    # jedi importing one of its own modules on first use: nothing of the project
                    ctx.count('raised', (c['seed'], 'lazy', tuple(ch[2])), nontrivial=False,
                              bucket='lazy import of jedi\'s own module')
                    continue
                ctx.fail('oracle', 'host %s differs after the query' % ch[0], dict(case_d, symptom=ch[0]),
                         expected=ch[1], observed=ch[2:], how=how)
            for rec in q['funnel']:
                if rec['loader'] is None and (rec['result'] or rec['names'][0] in auto):
                    # answered from inference_state.module_cache by the stub decorator: the funnel did not run
                    ctx.count('funnel', None, nontrivial=False, bucket='module-cache-hit')
                    continue
                reqs.append({'op': 'import', 'unsafe': rec['unsafe'], 'envPath': rec['env_path'],
                             'sysPath': rec['sys_path'], 'names': rec['names'], 'found': found_of(rec)})
                keys.append((c, r, q, rec, case_d))
        h = r['helper']
        if h['exec_project']:
            ctx.fail('oracle', 'helper process executed code of a project file (audit hook)',
                     dict(base, symptom='helper-exec'), expected=[], observed=h['exec_project'], how=how)
        if r['sentinels_end']:
            ctx.fail('oracle', 'a project file was executed (sentinel written)', dict(base, symptom='sentinel'),
                     expected=[], observed=r['sentinels_end'], how=how)
        ctx.count('helper', (c['seed'], 'path'), nontrivial=h['n_req'] > 0, bucket='requests=%d00s' % (h['n_req'] // 100))
        if len(h['path_ids']) > 1:
            ctx.fail('helper', "helper's sys.path is not the same object/contents after every request",
                     dict(base, symptom='helper-sys.path'), expected='one (id, hash)', observed=h['path_ids'], how=how)
    if ctx.model_ok:
        answers = common.run_driver_parallel('C12', reqs)
        for (c, r, q, rec, case_d), ans in zip(keys, answers):
            if 'error' in ans:
                raise common.InfraError('driver error: %r' % ans)
            if rec['load'] is not None:
                impl = {'kind': 'import', 'dotted': rec['load']['dotted'], 'path': rec['load']['path']}
            elif rec['loader'] == 'python':
                impl = {'kind': 'parse'}
            elif found_of(rec) == 'namespace':
                impl = {'kind': 'namespace'}
            else:
                impl = {'kind': 'nothing'}
            ctx.count('funnel', (tuple(rec['names']), tuple(rec['sys_path']), rec['unsafe'], found_of(rec)),
                      nontrivial=True, bucket='%s/%s' % (found_of(rec), ans['kind']),
                      sample={'names': rec['names'], 'found': found_of(rec), 'action': ans})
            if impl != ans:
                ctx.tie_broken('correspondence:funnel', short({'names': rec['names'], 'impl': impl, 'model': ans,
                                                               'found': found_of(rec)}, 1200))
                # failing-input search: the property on this very call - was a non-environment directory
                # handed to the real importer / was a project file loaded instead of parsed?
                if impl['kind'] == 'import' and not rec['unsafe']:
                    bad = [p for p in impl['path'] if p not in rec['env_path']]
                    if bad:
                        ctx.fail('funnel', 'a directory outside the environment sys.path was handed to __import__',
                                 dict(case_d, names=rec['names']), expected='subset of environment sys.path',
                                 observed=bad)
            if ans['kind'] == 'import':
                r.setdefault('_model_paths', {}).setdefault(ans['dotted'].split('.')[0], set()).add(
                    tuple(ans['path']))
        # helper side: the import event of a name the model sends to the importer saw one of the model's paths
        for c, r in zip(cases, results):
            mp_ = r.get('_model_paths', {})
            for mod, sp in r['helper']['imports']:
                if mod in mp_ and sp is not None:
                    ctx.count('helper', (mod, tuple(sp)), nontrivial=True, bucket='import-event')
                    if tuple(sp) not in mp_[mod]:
                        ctx.tie_broken('correspondence:helper', short({'module': mod, 'helper_sys_path': sp,
                                                                       'model_paths': sorted(mp_[mod])}, 1200))
                        bad = [p_ for p_ in sp if p_ not in r['env_path'] and not c.get('env_lists_project')]
                        if bad:
                            ctx.fail('helper', 'the helper imported with a directory outside the environment '
                                     'sys.path on sys.path', {'seed': c['seed'], 'module': mod},
                                     expected='subset of environment sys.path', observed=bad)
    else:
        ctx.notes.append('model did not build: correspondence skipped, oracle only')
    run_hostimport(ctx, host_names)
    ctx.obligations['assumptions'] = [
        'the finder (functions._find_module / importlib) is a parameter: which finder result a name had is read '
        'off the loader jedi chose; the import system itself is not modelled',
        'only the loader funnel is proved; "no other path reaches __import__/exec" rests on the extracted table '
        'of dynamic-import call sites (theorem only_import_sites) and on the audit hooks + sentinels',
        'an environment whose own sys.path lists the project directory (PYTHONPATH) is outside '
        'import_only_from_env\'s guarantee; a fixed stream keeps exercising it',
    ]


def run_hostimport(ctx, host_names):
    """stream hostimport: Model.NoExec.lazyHistory against the real host-side import, one fresh process per case"""
    import multiprocessing as mp
    if not host_names:
        ctx.notes.append('C12 hostimport: the host resolves every module jedi imports; nothing to plant')
        return
    cases = [{'id': 'h%d' % i, 'seed': '%s-h%d' % (ctx.seed, i), 'host_names': host_names}
             for i in range(ctx.size(10, 150))]
    t0 = time.time()
    with mp.get_context('fork').Pool(min(ctx.size(11, 16), len(cases)), maxtasksperchild=1) as pool:
        results = pool.map(_host_worker, cases, chunksize=1)
    ctx.notes.append('C12 hostimport: %d cases in %.1f s' % (len(cases), time.time() - t0))
    how = ('fresh process; directories d0..d2 and proj under a scratch root, `providers` hold a package named like '
           'the module jedi imports lazily (it logs its directory when executed); sys.path of the process gets '
           '`host_dirs`; then the queries of `history` on proj/main.py / proj/lib.py with the given Project '
           'options; ./check C12 --replay <file>')
    reqs = []
    for c, r in zip(cases, results):
        if 'infra' in r:
            raise common.InfraError('hostimport case %s: %s' % (c['id'], r['infra']))
        rel = lambda p_: os.path.relpath(p_, r['root']) if str(p_).startswith(r['root']) else p_  # noqa: E731
        case_d = {'kind': 'hostimport', 'seed': c['seed'], 'host_names': host_names,
                  'providers': [rel(d) for d in r['providers']], 'host_dirs': [rel(d) for d in r['host_dirs']],
                  'history': [{k: ([rel(x) for x in v] if k == 'extra_dirs' else v) for k, v in h.items()
                               if k in ('option', 'extra_dirs', 'kind', 'method')} for h in r['history']]}
        executed = r['history'][-1]['executed_so_far']
        for h in r['history']:
            if h['err'] is not None:
                ctx.count('raised', (c['seed'], h['method'], h['kind']), nontrivial=False, bucket='%s@%s' % tuple(h['err']))
            # the property itself: nothing found only through the analysed project is executed by the host, and
            # the host's sys.path / cwd / environment are what they were
            foreign = [rel(d) for d in h['executed_so_far'] if d not in r['host_path']]
            if foreign:
                ctx.fail('hostimport', 'the process running jedi executed a package that only the analysed '
                         'project\'s sys path provides', case_d,
                         expected='only packages from directories of its own sys.path (%s)'
                                  % [rel(d) for d in r['host_dirs']],
                         observed={'executed': foreign, 'after_query': {k: h[k] for k in ('option', 'kind', 'method')}},
                         how=how)
                break
            if not h['sys_path_same'] or not h['cwd_env_same']:
                ctx.fail('hostimport', 'host sys.path / cwd / environment differ after the query', case_d,
                         expected='unchanged', observed={k: h[k] for k in ('option', 'kind', 'method', 'sys_path_same',
                                                                           'cwd_env_same')}, how=how)
                break
        ctx.count('hostimport', (tuple(case_d['providers']), tuple(case_d['host_dirs']),
                                 tuple((h['option'], tuple(h['extra_dirs']), h['kind']) for h in case_d['history'])),
                  nontrivial=bool(set(r['providers']) & set(r['host_dirs'])) or len(r['history']) > 1,
                  bucket='lookups=%d/executed=%d/host-provides=%s/project-provides=%s' % (
                      sum(1 for h in r['history'] if h['looked_up']), len(executed), bool(set(r['providers']) & set(r['host_dirs'])),
                      bool(set(r['providers']) - set(r['host_dirs']))),
                  sample={'providers': case_d['providers'], 'host_dirs': case_d['host_dirs'],
                          'executed': [rel(d) for d in executed]})
        reqs.append({'op': 'hostimport', 'hostPath': r['host_path'], 'providers': r['providers'],
                     # one entry per query during which the host's import statement ran with the module not
                     # yet loaded (afterwards the model ignores further look-ups, as the statement does)
                     'history': [h['project_sys_path'] or [] for h in r['history'] if h['looked_up']]})
    if not ctx.model_ok:
        return
    answers = common.run_driver_parallel('C12', reqs)
    for c, r, ans in zip(cases, results, answers):
        if 'error' in ans:
            raise common.InfraError('driver error: %r' % ans)
        executed = r['history'][-1]['executed_so_far']
        tops = sorted(r['loaded'])
        loaded = r['loaded'][tops[0]][0] if tops else None
        if ans['executed'] != executed or (ans['loadedFrom'] != loaded and len(r['loaded']) <= 1):
            ctx.tie_broken('correspondence:hostimport', short(
                {'seed': c['seed'], 'model': ans, 'impl': {'executed': executed, 'loadedFrom': loaded},
                 'providers': r['providers'], 'host_dirs': r['host_dirs']}, 1200))


def replay(ctx, payload):
    inp = payload['input']
    if inp.get('kind') == 'hostimport':
        r = run_hostimport_case({'id': 'replay', 'seed': inp['seed'], 'host_names': inp['host_names']})
        for h in r['history']:
            print(h['option'], h['kind'], h['method'], 'executed so far:', h['executed_so_far'],
                  'host sys.path same:', h['sys_path_same'])
        print('host_dirs:', r['host_dirs'], 'providers:', r['providers'])
        print('expected:', payload.get('expected'), 'observed at record time:', short(payload.get('observed')))
        return 0
    case = {'id': 'replay', 'seed': inp['seed'], 'n_queries': inp.get('n_queries', 10 ** 6),
            'env_lists_project': inp.get('env_lists_project', False), 'host_names': inp.get('host_names') or ()}
    r = run_project_case(case)
    for q in r['queries']:
        if q['sentinels'] or q['host_exec'] or q['changed']:
            print(q['method'], q['line'], q['column'], q['option'], 'sentinels:', q['sentinels'],
                  'host_exec:', q['host_exec'], 'changed:', short(q['changed']))
    print('helper exec of project files:', r['helper']['exec_project'], 'sentinels at end:', r['sentinels_end'])
    print('expected:', payload.get('expected'), 'observed at record time:', short(payload.get('observed')))
    return 0

"""C11, docstring clause - worker side (runs in fresh interpreters through common.parallel_map and
in-process for corpus entries and replays).

For one generated program (gen/c11_doclits.py: one docstring literal per definition slot) the real
jedi is asked for the docstring of every definition through every API path

  names        Script.get_names(all_scopes=True, definitions=True) -> Name of the definition
  module       Script.get_context(<module level>)                   -> Name of the module
  infer / goto / help   on the reference `expr` of the trailer line `expr()`
  signatures   Script.get_signatures() inside the parentheses of `expr()` -> Signature
  complete     Script.complete() at the end of a plain-name reference -> Completion of that name

and the property is evaluated against CPython: the program is executed, the object is looked up,
  docstring(raw=True) == inspect.getdoc(object) or ''          (cleandoc semantics; bytes / f-string
                                                                literals are no docstrings)
  docstring()         == signature line(s) + blank line + that text   (no blank line when either
        part is empty); every signature line re-parses (exec of `def <line>: pass`) to
        inspect.signature(object) - names, kinds, defaults, annotations, order.
Nothing here looks at the model.
"""
import inspect
import types
import warnings

import common

WAYS_REF = ('infer', 'goto', 'help')
# kinds whose signature line cannot be judged in this sandbox (empty typeshed: `object.__init__` /
# the `classmethod` decorator resolve to compiled fallbacks)
NO_SIG_KINDS = {('names', 'classmethod'), ('names', 'nested-class'), ('names', 'class-oneline'),
                ('ref', 'nested-class'), ('ref', 'class-oneline'), ('names', 'module'), ('module', 'module')}


def _exec(src):
    mod = types.ModuleType('c11doc')
    with warnings.catch_warnings():
        warnings.simplefilter('ignore')
        exec(compile(src, '<c11doc>', 'exec'), mod.__dict__)
    return mod


def def_object(mod, slot):
    """the object created by the definition in `slot` (functions: the plain function)"""
    ns = mod.__dict__
    if slot == 'module':
        return mod
    if slot in ('func', 'afunc', 'oneline', 'Klass', 'One'):
        return ns[slot]
    if slot == 'nested':
        return ns['nestedf']
    o = inspect.getattr_static(ns['Klass'], slot)
    return getattr(o, '__func__', o)


def own_doc(obj):
    f = getattr(obj, '__func__', obj)
    if inspect.isclass(f) or inspect.ismodule(f):
        return f.__dict__.get('__doc__')
    return f.__doc__


def expected_doc(obj):
    """-> (text, judged?)   inspect.getdoc of the executed object; '' when there is none.
    An object without a docstring of its own that inherits one from a builtin (`__init__` from
    object) is not judged: jedi has no builtins here."""
    d = inspect.getdoc(obj)
    if own_doc(obj) is None:
        return ('', True) if d is None else (d, False)
    return d or '', True


def sig_from_text(to_string):
    g = {}
    exec('def %s:\n    pass\n' % to_string, g)
    fn = [v for k, v in g.items() if k != '__builtins__'][0]
    return inspect.signature(fn)


def sig_equal(a, b):
    pa, pb = list(a.parameters.values()), list(b.parameters.values())
    if len(pa) != len(pb):
        return False
    for x, y in zip(pa, pb):
        if (x.name, x.kind) != (y.name, y.kind):
            return False
        if (x.default is inspect.Parameter.empty) != (y.default is inspect.Parameter.empty):
            return False
        if x.default is not inspect.Parameter.empty and x.default != y.default:
            return False
        if x.annotation != y.annotation:
            return False
    return True


def judge(raw, whole, obj, sig_judged, is_class):
    """-> list of (what, expected, observed) - empty when the property holds"""
    out = []
    want, judged = expected_doc(obj)
    if judged and raw != want:
        out.append(('docstring(raw=True) differs from inspect.getdoc of the executed object',
                    want, {'raw': raw}))
    # docstring() = signature line(s), blank line, text
    doc = raw
    if doc:
        if not whole.endswith(doc):
            out.append(('docstring() does not end with the raw text', {'raw': raw}, {'docstring': whole}))
            return out
        head = whole[:len(whole) - len(doc)]
        if head:
            if not head.endswith('\n\n') or head[:-2].endswith('\n'):
                out.append(('docstring(): signature line(s) and text are not separated by exactly one blank line',
                            {'raw': raw}, {'docstring': whole}))
                return out
            head = head[:-2]
    else:
        head = whole
    if not sig_judged:
        return out
    if not head:
        out.append(('docstring() has no signature line', {'signature': _pysig(obj, is_class)}, {'docstring': whole}))
        return out
    try:
        pysig = inspect.signature(obj)
    except (ValueError, TypeError):
        return out
    if is_class:
        pysig = pysig.replace(return_annotation=inspect.Signature.empty)
    for line in head.split('\n'):
        try:
            again = sig_from_text(line)
        except Exception as e:  # noqa
            out.append(('a signature line of docstring() does not parse', str(pysig),
                        {'line': line, 'error': repr(e), 'docstring': whole}))
            continue
        if not sig_equal(again, pysig) or again.return_annotation != pysig.return_annotation:
            out.append(('the signature line of docstring() is not the signature of the executed object',
                        str(pysig), {'line': line, 'docstring': whole}))
    return out


def _pysig(obj, is_class):
    try:
        return str(inspect.signature(obj))
    except (ValueError, TypeError):
        return None


def _query(script, way, line, col, want_name):
    """-> the one API object for this way or ('none'|'many', n)"""
    if way == 'signatures':
        res = script.get_signatures(line, col + 1)
    elif way == 'complete':
        res = [c for c in script.complete(line, col) if c.name == want_name]
    else:
        res = getattr(script, way)(line, col)
    return res


def eval_program(item):
    """item: {source, trailer, slots, ways?, only?} -> list of records
    record: {way, slot, kind, status, fails: [[what, expected, observed]...], line, column, lit?}
    status: ok | fail | raised | unjudged:<why>"""
    import jedi
    src = item['source']
    ways = item.get('ways') or ['names', 'module', 'infer', 'goto', 'help', 'signatures', 'complete']
    only = item.get('only')          # {'way':, 'slot':} for replays
    mod = _exec(src[:item['exec_len']])        # the definitions, not the trailer of calls
    recs = []
    slots = {d['slot']: d for d in item['slots'] if d}
    kinds = item.get('kinds', {})
    nlines = src.count('\n')

    def wanted(way, slot):
        return way in ways and (only is None or (only['way'] == way and only['slot'] == slot))

    def record(way, slot, kind, line, col, fn, obj, sig_judged):
        rec = {'way': way, 'slot': slot, 'kind': kind, 'line': line, 'column': col, 'fails': [],
               'lit': slots.get(slot, {}).get('lit') if slot in slots else None}
        with warnings.catch_warnings():
            warnings.simplefilter('ignore')
            try:
                api = fn()
            except Exception as e:  # noqa  (the query itself: totality is C01's business)
                cls, site = common.exc_site(e)
                rec['status'] = 'unjudged:query-raised %s@%s' % (cls, site)
                recs.append(rec)
                return
            if not hasattr(api, 'docstring'):
                rec['status'] = 'unjudged:%s' % (api,)
                recs.append(rec)
                return
            try:
                raw = api.docstring(raw=True)
                whole = api.docstring()
            except Exception as e:  # noqa
                cls, site = common.exc_site(e)
                rec['status'] = 'raised'
                rec['fails'] = [['docstring() raised', None, {'exception': cls, 'site': site}]]
                recs.append(rec)
                return
        fails = judge(raw, whole, obj, sig_judged, inspect.isclass(obj))
        rec['raw'] = raw
        rec['status'] = 'fail' if fails else 'ok'
        rec['fails'] = [list(f) for f in fails]
        recs.append(rec)

    script = jedi.Script(src)
    # ---- the definitions themselves
    if any(wanted('names', k) for k in kinds) or 'names' in ways:
        try:
            names = script.get_names(all_scopes=True, definitions=True)
        except Exception as e:  # noqa
            names = []
        by = {}
        for n in names:
            if n.type in ('function', 'class'):
                by.setdefault(n.name, []).append(n)
        for slot, kind in kinds.items():
            if slot == 'module' or not wanted('names', slot):
                continue
            cands = by.get('nested' if slot == 'nested' else slot, [])
            obj = def_object(mod, slot)
            n = cands[0] if len(cands) == 1 else None
            record('names', slot, kind, n.line if n else 0, n.column if n else 0, (lambda n=n: n if n is not None else 'definition-not-listed'), obj,
                   ('names', kind) not in NO_SIG_KINDS)
    if wanted('module', 'module') and 'module' in kinds:
        record('module', 'module', 'module', nlines, 0, lambda: script.get_context(nlines, 0), mod, False)
    # ---- references
    for t in item['trailer']:
        slot, expr, line, col = t['slot'], t['expr'], t['line'], t['col']
        kind = kinds[slot]
        obj = eval(expr, mod.__dict__)
        for way in WAYS_REF + ('signatures', 'complete'):
            if not wanted(way, slot):
                continue
            if way == 'complete' and '.' in expr:
                continue
            if slot == 'nested' and way in ('goto', 'help', 'complete'):
                # `nestedf = outer()`: these lead to the assignment, not to a definition
                continue

            def fn(way=way):
                res = _query(script, way, line, col, expr)
                return res[0] if len(res) == 1 else '%d-results' % len(res)
            sj = ('ref', kind) not in NO_SIG_KINDS
            record(way, slot, kind, line, col, fn, obj, sj)
    return recs

"""C13 - Interpreter reflects live objects; safe mode runs no user descriptors.

Streams (correspondence = real code vs Lean model `Model/ObjModel` through Drivers/C13.lean)
  table      CompiledValueFilter._get decision table, exhaustive (192 rows)
  getattr    CPython getattr(obj, name) vs pyGetattr: found?, identity of a directly returned entry,
             ordered trace of user __get__ calls        (validates the CPython half of the model)
  static     getattr_static(obj, name) vs getattrStatic: entry identity, is_get_descriptor
  allowed    DirectObjectAccess.is_allowed_getattr(name, safe) vs isAllowedGetattr
  filter     CompiledValueFilter.get(name) + infer() of the names, {safe, unsafe} x is_instance
             vs filterGetInfer: kind of name and trace of user __get__ calls
  values     CompiledValueFilter.values() vs filterValues (+ direct: names >= dir(obj))
  getitem    DirectObjectAccess.py__simple_getitem__(index, safe) vs pySimpleGetitem
  mixedgetitem MixedObject.py__simple_getitem__ vs mixedSimpleGetitem
  iterlist   DirectObjectAccess.py__iter__list vs pyIterList
  hasiter    DirectObjectAccess.has_iter vs hasIter (answer and: nothing is called)
  pyiter     CompiledValue.py__iter__ vs compiledPyIter ; bool: CompiledValue.py__bool__ {safe, unsafe} and
             DirectObjectAccess.py__bool__() (default = safe) vs pyBool
  builtinbool access._has_builtin_bool(obj) vs hasBuiltinBoolMro on the class dictionaries of type(obj).__mro__
             (per class: which of __bool__/__len__ it stores, classified) - container zoo + generated worlds
             of classes with SEVERAL bases (gen.c13_graphs.gen_proto_mro: builtin container / number +
             user mixins in every order, triples, grandchildren, own redefinitions)
  boolmro    CompiledValue.py__bool__ {safe, unsafe} / DirectObjectAccess.py__bool__() vs pyBoolMro (the walk
             over the MRO, CPython's bool(): __bool__ anywhere along the MRO first, then __len__)
             + all item / iteration / bool unit streams above on the objects of those worlds
  e2e_attr   Interpreter(`obj.name`).infer(): set of user __get__ calls vs filterGetInfer trace
Direct oracle (never the model)
  oracle     generated object graphs x expressions x {complete, infer, goto, help, get_signatures}
             x {safe, unsafe}: in safe mode no counter of a forbidden kind may move
             flavor mro: the worlds of classes with several bases x queries whose inference needs the truth
             value of the object (`q = obj or 1`, `and`, `if obj: ... else: ...`, `not obj`, ternary, while,
             elif; complete on `q.`, infer/goto/help on `q`) and the reaching expressions, object named
             directly or through box.a['k'][0]['name']
  dir        names offered after `obj.` >= dir(obj), both modes
  inferpath  infer on plain attribute / builtin container item paths = class of the stored object
  dunder     properties whose *name* is one jedi / inspect read themselves (__doc__, __module__, ...)
"""
import json
import os
import shutil
import tempfile
import types

import common
from common import short
from gen import c13_graphs as G

MODELS = ['ObjModel', 'ObjCfg']
MANIFEST = dict(
    text='Lean model of CPython attribute lookup (object/type __getattribute__ order, with the trace of user '
         '__get__ calls), of jedi\'s getattr_static backport, is_allowed_getattr, the CompiledValueFilter._get '
         'decision table, values(), py__simple_getitem__/py__iter__list/has_iter/py__bool__ and the static '
         'special-method lookup they use; type lists, guard expressions and lookup orders are translator-extracted, '
         'the shape of the hand-transcribed functions is translator-checked. Theorems (all FULL except bool_mro_refines_flat_partial, whose hypothesis is a well-formedness condition of the '
         'encoding, with counter-witness): the static lookup '
         'returns stored entries only and chooses the entry getattr chooses (instances and classes, including a '
         'metaclass data descriptor shadowing a class attribute); safe mode never produces a real name for a '
         'user-__get__ attribute of an instance, of a class/bases or of the metaclass; item access / py__iter__list '
         'only on listed builtin containers; has_iter + py__iter__list run no user code at all; safe py__bool__ '
         'calls bool(obj) only when a builtin slot wrapper (or nothing) decides - also stated over the class '
         'dictionaries of the whole MRO (hasBuiltinBoolMro / pyBoolMro: any number of bases in any order; the '
         'nesting of the two loops of _has_builtin_bool and the order of the names are translator-extracted; the '
         'classes-outer walk has a kernel-checked counter-witness, class R(list, Mixin) with Mixin.__bool__; '
         'the MRO level refines the flattened one); names offered = dir(obj) exactly. '
         'The former counter-witness inputs are kernel-checked witnesses of the repaired behaviour. Tie: translator '
         '+ 15 correspondence streams on generated live object graphs and on generated worlds of classes with several '
         'bases (builtin container + mixins, every MRO order) + direct oracle with counters inside every '
         'user special method over all Interpreter query methods x {safe, unsafe}, including truth-value queries '
         '(or / and / if / not / while) on those worlds; the repaired defects are '
         'deterministic regression inputs (corpus/C13).',
    note='Modelled not verified: CPython descriptor protocol (validated by stream getattr), __getattribute__/'
         '__getattr__/__dir__/__class__ properties (outside the trace alphabet; counted by the oracle), metaclass '
         '__eq__ in `type(obj) in ALLOWED_GETITEM_TYPES`, dict subclasses overriding values()/keys().',
    technique='Lean 4 proof over hand-written model + translator-generated tables/guards + differential '
              'correspondence + counter-instrumented direct oracle',
    design='5.C13')
LEAN_TARGETS = ['JediModel.Props.C13', 'JediModel.Drivers.C13']

FORBIDDEN = ('property', '__get__', '__getitem__', '__iter__', '__next__', '__call__', '__len__', '__bool__')
METHODS = ('complete', 'infer', 'goto', 'help', 'get_signatures')
DUNDERS = ['__class__', '__doc__', '__dict__', '__len__', '__getitem__', '__iter__', '__init__',
           '__name__', '__module__', '__slots__', 'missing']


class Env:
    """settings switch + fresh inference states"""

    def __init__(self):
        from jedi import settings
        self.settings = settings
        self.saved = settings.allow_unsafe_interpreter_executions
        self.mismatch = None

    def set(self, unsafe):
        self.settings.allow_unsafe_interpreter_executions = unsafe

    def state(self, unsafe):
        import jedi
        self.set(unsafe)
        st = jedi.Interpreter('', [{}])._inference_state
        if st.allow_unsafe_executions != unsafe and self.mismatch is None:
            self.mismatch = {'setting': unsafe, 'inference_state.allow_unsafe_executions': st.allow_unsafe_executions}
        return st

    def restore(self):
        self.settings.allow_unsafe_interpreter_executions = self.saved


def compiled_value(st, obj):
    from jedi.inference.compiled.access import create_access_path
    from jedi.inference.compiled.value import create_from_access_path
    return create_from_access_path(st, create_access_path(st, obj))


def ev_names(events, reg):
    out = []
    for kind, obj, site in events:
        out.append((kind, reg.known(obj), site))
    return out


def load_own_known(ctx):
    """known_findings.d/C13.json is the source of truth for this property (tools/mkknown.py merges it
    into known_findings.json at commit time): use exactly its `findings`, so that an entry moved to
    `fixed` stops excusing the defect as soon as it is moved, not only after the merge."""
    p = os.path.join(common.VERIF, 'known_findings.d', 'C13.json')
    try:
        with open(p, encoding='utf-8') as f:
            d = json.load(f)
    except FileNotFoundError:
        return
    ctx.known = [k for k in d.get('findings', []) if k.get('property') == 'C13']


# ------------------------------------------------------------------ stream: decision table

def stream_table(ctx, reqs, cases):
    from jedi.inference.compiled import value as cv

    class FakeState:
        def __init__(self, unsafe):
            self.allow_unsafe_executions = unsafe
            self.builtins_module = None

    class FakeV:
        parent_context = None

    class FakeAnn:
        def __init__(self, vals):
            self.vals = vals

        def execute_annotation(self, ctx_):
            return [FakeV()] if self.vals else []

    orig = cv.create_from_access_path
    cv.create_from_access_path = lambda st, path: path
    try:
        for has in (False, True):
            for isd in (False, True):
                for ann in ('none', 'empty', 'values'):
                    for check in (False, True):
                        for unsafe in (False, True):
                            for inst in (False, True):
                                for indir in (False, True):
                                    f = cv.CompiledValueFilter.__new__(cv.CompiledValueFilter)
                                    f._inference_state = FakeState(unsafe)
                                    f.is_instance = inst
                                    f.compiled_value = None
                                    f._get_cached_name = (lambda name, is_empty=False, *, is_descriptor=False:
                                                          'emptyName' if is_empty else
                                                          ('realName:descriptor' if is_descriptor else 'realName'))
                                    annobj = None if ann == 'none' else FakeAnn(ann == 'values')
                                    res = f._get('n', lambda n: (has, isd, annobj), lambda n: indir,
                                                 check_has_attribute=check)
                                    if res == []:
                                        impl = 'absent'
                                    elif isinstance(res[0], cv.CompiledValueName):
                                        impl = 'annotated'
                                    else:
                                        impl = res[0]
                                    row = dict(has=has, isDescr=isd, annPresent=ann != 'none',
                                               annValues=ann == 'values', checkHas=check, unsafe=unsafe,
                                               isInstance=inst, inDir=indir)
                                    reqs.append(dict(op='get', **row))
                                    cases.append(('table', row, impl))
    finally:
        cv.create_from_access_path = orig


# ------------------------------------------------------------------ unit streams on generated graphs

def targets_of(ns, info):
    """(label, object) for every instance, class and metaclass of a graph"""
    out = []
    for o in info['objs']:
        out.append((o['name'], ns[o['name']]))
    for c in info['classes'] + info['metas']:
        out.append((c['name'], ns[c['name']]))
    out.append(('dyn', ns['dyn']))
    out.append(('Dyn', ns['Dyn']))
    return out


def ann_values(st, annpath):
    from jedi.inference.compiled.value import create_from_access_path
    try:
        return bool(create_from_access_path(st, annpath).execute_annotation(None))
    except Exception:
        return False


def stream_units(ctx, env, rec, reqs, cases, src, info, ns, reg, rng):
    from jedi.inference.compiled.access import DirectObjectAccess
    from jedi.inference.compiled.getattr_static import getattr_static
    from jedi.inference.compiled import value as cv
    graph = {'source': src}
    states = {False: env.state(False), True: env.state(True)}
    for label, obj in targets_of(ns, info):
        names = list(G.NAMES) + rng.sample(DUNDERS, 4) + ['z', 'w']
        dirset = None
        for name in names:
            tgt = G.describe(obj, [name], reg)
            base = {'graph': graph, 'object': label, 'name': name}
            # --- CPython getattr
            rec.reset()
            try:
                val = getattr(obj, name)
                found = True
            except AttributeError:
                val, found = None, False
            tr = [reg.known(o) for k, o, s in rec.take() if k in ('property', '__get__')]
            reqs.append({'op': 'getattr', 'target': tgt, 'name': name})
            cases.append(('getattr', base, {'found': found, 'trace': tr, 'val': reg.known(val) if found else None}))
            # --- getattr_static
            rec.reset()
            try:
                attr, flag = getattr_static(obj, name)
                impl = {'id': reg.id(attr), 'isGet': bool(flag)}
            except AttributeError:
                impl = None
            moved = rec.take()
            reqs.append({'op': 'static', 'target': tgt, 'name': name})
            cases.append(('static', base, {'res': impl, 'moved': [k for k, o, s in moved]}))
            # --- is_allowed_getattr, both modes
            for safe in (True, False):
                rec.reset()
                acc = DirectObjectAccess(states[not safe], obj)
                has, isd, ann = acc.is_allowed_getattr(name, safe=safe)
                moved = [k for k, o, s in rec.take() if k in FORBIDDEN]
                reqs.append({'op': 'allowed', 'target': tgt, 'name': name, 'safe': safe, 'dynHas': False})
                cases.append(('allowed', dict(base, safe=safe),
                              {'res': [bool(has), bool(isd), ann is not None], 'moved': moved}))
            # --- filter.get + infer
            if dirset is None:
                dirset = set(dir(obj))
            for unsafe in (False, True):
                for is_instance in ((False, True) if not unsafe or not ctx.quick else (rng.random() < 0.5,)):
                    st = env.state(unsafe)
                    value = compiled_value(st, obj)
                    f = cv.CompiledValueFilter(st, value, is_instance)
                    rec.reset()
                    try:
                        res = f.get(name)
                    except Exception as e:
                        ctx.count('raised', (label, name), nontrivial=False,
                                  bucket='filter.get:%s@%s' % common.exc_site(e))
                        continue
                    get_moved = [k for k, o, s in rec.take() if k in FORBIDDEN]
                    if not res:
                        kind = 'absent'
                    elif isinstance(res[0], cv.EmptyCompiledName):
                        kind = 'emptyName'
                    elif isinstance(res[0], cv.CompiledValueName):
                        kind = 'annotated'
                    else:
                        n0 = res[0]
                        wrapped = getattr(n0, '_wrapped_name', n0)
                        kind = 'realName:descriptor' if wrapped.is_descriptor else 'realName'
                    rec.reset()
                    for n in res:
                        try:
                            n.infer()
                        except Exception as e:
                            ctx.count('raised', (label, name), nontrivial=False,
                                      bucket='name.infer:%s@%s' % common.exc_site(e))
                    evs = rec.take()
                    tr = [reg.known(o) for k, o, s in evs if k in ('property', '__get__')]
                    other = [k for k, o, s in evs if k in FORBIDDEN and k not in ('property', '__get__')]
                    # parameters of the model that live outside it
                    acc = DirectObjectAccess(st, obj)
                    _, _, ann = acc.is_allowed_getattr(name, safe=True)
                    av = ann_values(st, ann) if ann is not None else False
                    rec.reset()
                    reqs.append({'op': 'filter', 'target': tgt, 'name': name, 'unsafe': unsafe,
                                 'isInstance': is_instance, 'inDir': name in dirset, 'dynHas': False,
                                 'annValues': av})
                    cases.append(('filter', dict(base, unsafe=unsafe, is_instance=is_instance),
                                  {'outcome': kind, 'trace': tr, 'get_moved': get_moved, 'other': other,
                                   'sites': sorted({s for k, o, s in evs})}))
        # --- values() on instances (class objects need typeshed for the `type` names)
        if not isinstance(obj, type):
            for unsafe in (False, True):
                for is_instance in (False, True):
                    st = env.state(unsafe)
                    value = compiled_value(st, obj)
                    f = cv.CompiledValueFilter(st, value, is_instance)
                    rec.reset()
                    try:
                        got = [n.string_name for n in f.values()]
                    except Exception as e:
                        ctx.count('raised', (label,), nontrivial=False,
                                  bucket='filter.values:%s@%s' % common.exc_site(e))
                        continue
                    moved = [(k, s) for k, o, s in rec.take() if k in FORBIDDEN]
                    acc = DirectObjectAccess(st, obj)
                    infos = []
                    for n in dir(obj):
                        has, isd, ann = acc.is_allowed_getattr(n)
                        infos.append({'n': n, 'has': bool(has), 'isDescr': bool(isd), 'annPresent': ann is not None,
                                      'annValues': ann_values(st, ann) if ann is not None else False})
                    rec.reset()
                    reqs.append({'op': 'values', 'infos': infos, 'unsafe': unsafe, 'isInstance': is_instance})
                    cases.append(('values', {'graph': graph, 'object': label, 'unsafe': unsafe,
                                             'is_instance': is_instance},
                                  {'names': got, 'dir': sorted(dir(obj)), 'moved': moved}))


# ------------------------------------------------------------------ containers

CONTAINER_SRC = G.PRELUDE + '''
class UL(list):
    pass
class ULG(list):
    def __getitem__(self, k):
        _hit('__getitem__', self)
        return 'item'
    def __iter__(self):
        _hit('__iter__', self)
        return iter([1])
class UD(dict):
    def __getitem__(self, k):
        _hit('__getitem__', self)
        return 'item'
class UT(tuple):
    pass
class US(str):
    def __iter__(self):
        _hit('__iter__', self)
        return iter('x')
class Seq:
    def __getitem__(self, k):
        _hit('__getitem__', self)
        if k > 1:
            raise IndexError
        return 'item'
    def __len__(self):
        _hit('__len__', self)
        return 2
class SeqChild(Seq):
    pass
class It:
    def __iter__(self):
        _hit('__iter__', self)
        return self
    def __next__(self):
        _hit('__next__', self)
        raise StopIteration
class ItAnn:
    def __iter__(self) -> list:
        _hit('__iter__', self)
        return iter([1])
class Gen:
    def __iter__(self):
        _hit('__iter__', self)
        yield K()
class Truthy:
    def __bool__(self):
        _hit('__bool__', self)
        return True
class Sized:
    def __len__(self):
        _hit('__len__', self)
        return 0
class Both:
    def __bool__(self):
        _hit('__bool__', self)
        return False
    def __len__(self):
        _hit('__len__', self)
        return 3
class Nothing:
    pass
class IterProp:
    __iter__ = mkprop()
class IterNone:
    __iter__ = None
    def __getitem__(self, k):
        _hit('__getitem__', self)
        raise IndexError
class IterND:
    __iter__ = ND()
class IterDD:
    __iter__ = DD()
class ItSeq:
    def __iter__(self):
        _hit('__iter__', self)
        return iter([1])
    def __getitem__(self, k):
        _hit('__getitem__', self)
        raise IndexError
class InstIter:
    pass
def _inst_iter():
    _hit('__iter__', inst_iter)
    return iter([1])
inst_iter = InstIter()
vars(inst_iter)['__iter__'] = _inst_iter
vars(inst_iter)['__bool__'] = _inst_iter
class BoolNone:
    __bool__ = None
class BoolProp:
    __bool__ = mkprop()
class LenProp:
    __len__ = mkprop()
class BoolND:
    __bool__ = ND()
class IntLen(int):
    def __len__(self):
        _hit('__len__', self)
        return 0
class ListBool(list):
    def __bool__(self):
        _hit('__bool__', self)
        return True
class MetaProto(type):
    def __iter__(cls):
        _hit('__iter__', cls)
        return iter([1])
    def __bool__(cls):
        _hit('__bool__', cls)
        return False
    def __len__(cls):
        _hit('__len__', cls)
        return 0
    def __getitem__(cls, k):
        _hit('__getitem__', cls)
        return 'item'
class WithMeta(metaclass=MetaProto):
    pass
def _genf():
    yield K()
conts = {
 'list': [K(), 2, 3], 'tuple': (K(), 2), 'dict': {0: K(), 'k': 1}, 'str': 'abc', 'bytes': b'abc',
 'bytearray': bytearray(b'abc'), 'set': {1, 2}, 'frozenset': frozenset([1]), 'range': range(3),
 'int': 5, 'UL': UL([1, 2]), 'ULG': ULG([1, 2]), 'UD': UD({0: 1}), 'UT': UT((1, 2)), 'US': US('ab'),
 'Seq': Seq(), 'SeqChild': SeqChild(), 'It': It(), 'ItAnn': ItAnn(), 'Gen': Gen(), 'Truthy': Truthy(),
 'Sized': Sized(), 'Both': Both(), 'Nothing': Nothing(), 'IterProp': IterProp(), 'IterNone': IterNone(),
 'biglist': list(range(40)),
 'IterND': IterND(), 'IterDD': IterDD(), 'ItSeq': ItSeq(), 'InstIter': inst_iter, 'BoolNone': BoolNone(),
 'BoolProp': BoolProp(), 'LenProp': LenProp(), 'BoolND': BoolND(), 'IntLen': IntLen(3), 'ListBool': ListBool(),
 'WithMeta': WithMeta(), 'WithMetaClass': WithMeta, 'generator': _genf(), 'emptylist': [], 'emptydict': {},
 'zero': 0, 'none': None, 'float': 0.5, 'slice': slice(1), 'K': K(), 'Kclass': K,
}
'''


def stream_containers(ctx, env, rec, reqs, cases, reg, conts=None, extra=None):
    """unit streams on a dictionary label -> live object: the fixed container zoo (default) or the
    objects of a generated world (`extra` = what has to be part of the case to rebuild it)"""
    from jedi.inference.compiled.access import DirectObjectAccess
    from jedi.inference.compiled import access as access_mod
    from jedi.inference.compiled import mixed
    if conts is None:
        ns = G.build(CONTAINER_SRC, rec)
        conts = ns['conts']

    class FakeTree:
        inference_state = None

        def py__simple_getitem__(self, index):
            return 'TREE'

    for label, obj in conts.items():
        ty = G.describe_ty(obj, reg)
        base = dict(extra or {}, container=label)
        mro_slots = G.describe_mro_slots(type(obj))
        proto = lambda evs: [k for k, o, s in evs if k in FORBIDDEN]   # noqa: E731
        for safe in (True, False):
            st = env.state(not safe)
            acc = DirectObjectAccess(st, obj)
            for index in (0, 'k'):
                rec.reset()
                try:
                    r = acc.py__simple_getitem__(index, safe=safe)
                    out = 'refused' if r is None else 'reached'
                except (IndexError, KeyError, TypeError):
                    out = 'reached'      # obj[index] itself raised
                reqs.append({'op': 'getitem', 'ty': ty, 'safe': safe})
                cases.append(('getitem', dict(base, safe=safe, index=index),
                              {'reached': out == 'reached', 'events': proto(rec.take())}))
            # MixedObject
            value = compiled_value(st, obj)
            mo = mixed.MixedObject.__new__(mixed.MixedObject)
            mo._wrapped_value = FakeTree()
            mo.compiled_value = value
            mo.access_handle = value.access_handle
            rec.reset()
            try:
                r = mo.py__simple_getitem__(0)
                out = r != 'TREE'
            except Exception:
                out = True     # SimpleGetItemNotFound & co come from the compiled path
            # "reached" for the mixed path = the compiled value was asked AND subscripted the object
            reqs.append({'op': 'mixedgetitem', 'ty': ty, 'unsafe': not safe})
            cases.append(('mixedgetitem', dict(base, unsafe=not safe),
                          {'compiled_path': out, 'events': proto(rec.take())}))
        st = env.state(False)
        acc = DirectObjectAccess(st, obj)
        islot = G.slot_of(type(obj), '__iter__')
        gslot = G.slot_of(type(obj), '__getitem__')
        annotated = False
        try:
            annotated = vars_lookup(type(obj), '__iter__').__annotations__.get('return') is not None
        except AttributeError:
            pass
        rec.reset()
        try:
            r = acc.py__iter__list()
            shape = 'noIter' if r is None else 'refused' if r == [] else 'nonempty:%d' % len(r)
        except Exception as e:
            shape = 'raised:' + type(e).__name__
        evs = rec.take()
        reqs.append({'op': 'iterlist', 'ty': ty, 'iter': islot, 'annotated': annotated})
        cases.append(('iterlist', dict(base), {'shape': shape, 'len': len(obj) if hasattr(type(obj), '__len__')
                                               and type(obj).__module__ == 'builtins' else None,
                                               'events': [k if k != 'property' else '__get__' for k in proto(evs)]}))
        rec.reset()
        res = None
        try:
            res = acc.has_iter()
        except Exception as e:
            ctx.count('raised', (label,), nontrivial=False, bucket='has_iter:%s@%s' % common.exc_site(e))
        reqs.append({'op': 'hasiter', 'iter': islot, 'getitem': gslot})
        cases.append(('hasiter', dict(base), {'result': res, 'events': [k if k != 'property' else '__get__'
                                                                         for k in proto(rec.take())]}))
        for unsafe in (False, True):
            st = env.state(unsafe)
            value = compiled_value(st, obj)
            rec.reset()
            try:
                list(value.py__iter__())
            except Exception as e:
                ctx.count('raised', (label,), nontrivial=False, bucket='py__iter__:%s@%s' % common.exc_site(e))
            reqs.append({'op': 'pyiter', 'ty': ty, 'iter': islot, 'annotated': annotated})
            cases.append(('pyiter', dict(base, unsafe=unsafe),
                          {'events': [k if k != 'property' else '__get__' for k in proto(rec.take())]}))
            rec.reset()
            res = 'raised'
            try:
                res = value.py__bool__()
            except Exception as e:
                ctx.count('raised', (label,), nontrivial=False, bucket='py__bool__:%s@%s' % common.exc_site(e))
            reqs.append({'op': 'bool', 'ty': ty, 'safe': not unsafe})
            # safe mode: every forbidden counter counts; unsafe mode: the model's alphabet for bool(obj)
            # is __bool__ / __len__ (a property stored under those names runs as well, unmodelled)
            impl = {'reached': res is not None, 'result': repr(res),
                    'events': [k if k != 'property' else '__get__' for k in proto(rec.take())
                               if not unsafe or k in ('__bool__', '__len__')]}
            cases.append(('bool', dict(base, unsafe=unsafe, via='CompiledValue.py__bool__'), impl))
            # the same call against the model of the walk over the class dictionaries of the MRO
            reqs.append({'op': 'boolmro', 'mro': mro_slots, 'safe': not unsafe})
            cases.append(('boolmro', dict(base, unsafe=unsafe, via='CompiledValue.py__bool__',
                                          mro=[c.__name__ for c in type(obj).__mro__]), impl))
        # the access method itself: its default must be the safe behaviour
        rec.reset()
        res = 'raised'
        try:
            res = acc.py__bool__()
        except Exception as e:
            ctx.count('raised', (label,), nontrivial=False, bucket='py__bool__:%s@%s' % common.exc_site(e))
        reqs.append({'op': 'bool', 'ty': ty, 'safe': True})
        impl = {'reached': res is not None, 'result': repr(res),
                'events': [k if k != 'property' else '__get__' for k in proto(rec.take())]}
        cases.append(('bool', dict(base, unsafe=False, via='DirectObjectAccess.py__bool__()'), impl))
        reqs.append({'op': 'boolmro', 'mro': mro_slots, 'safe': True})
        cases.append(('boolmro', dict(base, unsafe=False, via='DirectObjectAccess.py__bool__()',
                                      mro=[c.__name__ for c in type(obj).__mro__]), impl))
        # the guard itself: _has_builtin_bool(obj) vs hasBuiltinBoolMro; what bool(obj) really runs is
        # measured by the harness (unsafe call) so that the failing-input search can judge the answer
        rec.reset()
        res = 'raised'
        try:
            res = access_mod._has_builtin_bool(obj)
        except Exception as e:
            ctx.count('raised', (label,), nontrivial=False, bucket='_has_builtin_bool:%s@%s' % common.exc_site(e))
        moved = proto(rec.take())
        try:
            bool(obj)
        except Exception:
            pass
        runs = [k for k in proto(rec.take()) if k in ('__bool__', '__len__')]
        reqs.append({'op': 'builtinboolmro', 'mro': mro_slots})
        cases.append(('builtinbool', dict(base, mro=[c.__name__ for c in type(obj).__mro__]),
                      {'res': res, 'moved': moved, 'bool_runs': runs, 'safe_events': impl['events']}))


def vars_lookup(t, name):
    """raw class-dictionary entry along the MRO (AttributeError if there is none)"""
    for k in t.__mro__:
        if name in vars(k):
            return vars(k)[name]
    raise AttributeError(name)


# ------------------------------------------------------------------ direct oracle (e2e)

def descriptor_owner(ns, info, obj):
    """('metaclass'|'class', owner name, attr name) of a descriptor object stored in a class dict"""
    for c in info['metas'] + info['classes']:
        k = ns[c['name']]
        for n, v in vars(k).items():
            if v is obj:
                return ('metaclass' if c['is_meta'] else 'class', c['name'], n)
    return ('?', '?', '?')


def run_query(expr, ns_list, method):
    import jedi
    script = jedi.Interpreter(expr, ns_list)
    return getattr(script, method)()


def judge_events(ctx, rec, events, ns, info, case, unsafe, stream='oracle'):
    """the property itself: in safe mode no forbidden counter moves. Returns list of failures."""
    hist = {}
    for kind, obj, site in events:
        hist[kind] = hist.get(kind, 0) + 1
    if unsafe:
        return hist
    seen = set()
    for kind, obj, site in events:
        if kind not in FORBIDDEN:
            continue
        c = dict(case)
        c['counter'] = kind
        c['site'] = site
        if kind in ('property', '__get__') and info is not None:
            where, owner, attr = descriptor_owner(ns, info, obj)
            c['where'] = where
            c['descriptor'] = '%s.%s' % (owner, attr)
            # does a plain attribute of the class itself carry the same name?
            c['shadows_class_attr'] = False
            tgt = case.get('target_class')
            if where == 'metaclass' and tgt and tgt in ns:
                c['shadows_class_attr'] = any(attr in vars(k) for k in ns[tgt].__mro__)
        key = (kind, site, c.get('where'), c.get('shadows_class_attr'))
        if key in seen:
            continue
        seen.add(key)
        ctx.fail(stream, 'safe mode executed a user-defined %s' % kind, c,
                 expected='no call of a user-defined special method / descriptor with '
                          'settings.allow_unsafe_interpreter_executions = False',
                 observed={'counter': kind, 'site': site, 'events': [(k, s) for k, o, s in events][:8]},
                 how='exec(source) with _hit = a counter; settings.allow_unsafe_interpreter_executions = False; '
                     'jedi.Interpreter(expr, [namespace]).<method>()')
    return hist


def expressions_for(rng, info, ns):
    """(expr, kind, target label, class name or None)"""
    out = []
    labels = [(o['name'], o['cls'], False) for o in info['objs']] + \
             [(c['name'], c['name'], True) for c in info['classes']] + [('dyn', 'Dyn', False)]
    for label, cls, is_class in labels:
        out.append(('%s.' % label, 'dot', label, cls, is_class))
        for n in G.NAMES:
            out.append(('%s.%s' % (label, n), 'attr', label, cls, is_class))
        for n in rng.sample(G.NAMES, 2):
            out.append(('%s.%s.' % (label, n), 'attrdot', label, cls, is_class))
        if not is_class:
            out.append(('%s[0].' % label, 'item', label, cls, is_class))
            out.append(('%s[0]' % label, 'item', label, cls, is_class))
            out.append(('%s().' % label, 'call', label, cls, is_class))
            out.append(('%s(' % label, 'callsig', label, cls, is_class))
            out.append(('for q in %s:\n    q.' % label, 'for', label, cls, is_class))
            out.append(('[q for q in %s]' % label, 'comp', label, cls, is_class))
            out.append(('q, = %s\nq.' % label, 'unpack', label, cls, is_class))
            out.append(('q = %s or 1\nq.' % label, 'or', label, cls, is_class))
            out.append(('if %s:\n    q = 1\nq.' % label, 'if', label, cls, is_class))
            out.append(('not %s' % label, 'not', label, cls, is_class))
            out.append(('q = %s\nq.a' % label, 'alias', label, cls, is_class))
        else:
            out.append(('%s.mro' % label, 'attr', label, cls, is_class))
    # metaclass attributes through the class
    for c in info['classes']:
        if c['meta']:
            for n in G.NAMES:
                out.append(('%s.%s' % (c['name'], n), 'attr', c['name'], c['name'], True))
    return out


def stream_oracle(ctx, env, rec, reqs, cases, src, info, ns, reg, rng, flavor, n_expr):
    exprs = expressions_for(rng, info, ns)
    if len(exprs) > n_expr:
        keep = rng.sample(exprs, n_expr)
    else:
        keep = exprs
    names = {k: v for k, v in ns.items() if not k.startswith('_') and k not in ('ND', 'DD', 'DDel', 'SO', 'mkprop')}
    for expr, kind, label, cls, is_class in keep:
        for unsafe in (False, True):
            env.set(unsafe)
            for method in METHODS:
                if method == 'get_signatures' and kind not in ('callsig', 'call'):
                    if rng.random() < 0.7:
                        continue
                case = {'source': src, 'flavor': flavor, 'expr': expr, 'method': method, 'unsafe': unsafe,
                        'target': label, 'target_class': cls if is_class else None,
                        'target_kind': 'class' if is_class else 'instance'}
                rec.reset()
                err = None
                res = None
                try:
                    res = run_query(expr, [names], method)
                except Exception as e:
                    err = e
                events = rec.take()
                hist = judge_events(ctx, rec, events, ns, info, case, unsafe)
                if err is not None:
                    ctx.count('raised', (expr, method, unsafe), nontrivial=False,
                              bucket='%s:%s@%s' % ((kind,) + common.exc_site(err)))
                ctx.count('oracle', (src, expr, method, unsafe), nontrivial=bool(events) or bool(res),
                          bucket='%s/%s/%s/%s' % (flavor, kind, method, 'unsafe' if unsafe else 'safe'),
                          sample={'expr': expr, 'method': method, 'unsafe': unsafe, 'flavor': flavor,
                                  'counters': hist, 'n_results': len(res) if res is not None else None})
                for k in hist:
                    if k not in FORBIDDEN:
                        ctx.count('other-hooks', None, nontrivial=False, bucket=k)
                # --- dir superset
                if kind == 'dot' and method == 'complete' and err is None:
                    obj = ns[label]
                    offered = {c.name for c in res}
                    want = set(dir(obj))
                    missing = sorted(want - offered)
                    ctx.count('dir', (src, expr, unsafe), nontrivial=True,
                              bucket='%s/%s' % (flavor, 'class' if is_class else 'instance'))
                    if missing:
                        ctx.fail('dir', 'names of dir(obj) are not offered after `obj.`', case,
                                 expected={'dir_subset_of_completions': True},
                                 observed={'missing': missing[:20], 'n_offered': len(offered)},
                                 how='jedi.Interpreter(expr, [ns]).complete() names vs dir(ns[target])')
                # --- e2e_attr correspondence (instances and classes, infer on `obj.name`)
                if kind == 'attr' and method == 'infer' and err is None and flavor == 'exec' \
                        and expr.count('.') == 1 and expr.split('.')[1] in G.NAMES:
                    obj = ns[label]
                    name = expr.split('.')[1]
                    tr = sorted({reg.id(o) for k, o, s in events if k in ('property', '__get__')})
                    from jedi.inference.compiled.access import DirectObjectAccess
                    st = env.state(unsafe)
                    _, _, ann = DirectObjectAccess(st, obj).is_allowed_getattr(name, safe=True)
                    av = ann_values(st, ann) if ann is not None else False
                    rec.reset()
                    reqs.append({'op': 'filter', 'target': G.describe(obj, [name], reg), 'name': name,
                                 'unsafe': unsafe, 'isInstance': False, 'inDir': True, 'dynHas': False,
                                 'annValues': av})
                    cases.append(('e2e_attr', case, {'trace_set': tr}))
    env.restore()


# ------------------------------------------------------------------ classes with several bases

# queries whose inference needs the truth value of the object: text up to the name that is asked
# (complete() is asked on text + '.', infer / goto / help on the text itself)
TRUTH_FORMS = [
    ('or', 'q = %s or 1\nq'), ('and', 'q = %s and 1\nq'),
    ('if-else', 'if %s:\n    w = 1\nelse:\n    w = ""\nw'), ('if', 'if %s:\n    q = 1\nq'),
    ('not', 'q = not %s\nq'),
]
TRUTH_FORMS_MORE = [
    ('ternary', 'w = 1 if %s else ""\nw'), ('while', 'while %s:\n    w = 1\n    break\nelse:\n    w = ""\nw'),
    ('or-paren', '(%s or 1)'), ('and-paren', '(%s and 1)'), ('elif', 'if 0:\n    w = 1\nelif %s:\n    w = ""\nw'),
]
# the other expressions reaching the object
REACH_FORMS = [
    ('dot', '%s.'), ('name', '%s'), ('item', '%s[0].'), ('call', '%s().'), ('callsig', '%s('),
    ('for', 'for q in %s:\n    q.'), ('comp', '[q for q in %s]'), ('unpack', 'q, = %s\nq.'),
]


def stream_protomro(ctx, env, rec, reqs, cases, reg, rng):
    """generated worlds of classes with several bases (builtin container / number + user mixins, every
    order): unit streams on every object, then the direct oracle over Interpreter queries"""
    src, info = G.gen_proto_mro(rng, n_triples=ctx.size(6, 24), n_deep=ctx.size(4, 10))
    ns = G.build(src, rec, 'exec')
    objs = info['objs']
    stream_containers(ctx, env, rec, reqs, cases, reg, conts={o['name']: ns[o['name']] for o in objs},
                      extra={'source': src})
    names = {k: v for k, v in ns.items() if not k.startswith('_') and k not in ('ND', 'DD', 'DDel', 'SO', 'mkprop')}
    pairs = [o for o in objs if len(o['bases']) == 2 and o['cls'].startswith('P')]
    rest = [o for o in objs if o not in pairs]
    picked = pairs + rng.sample(rest, min(len(rest), ctx.size(8, len(rest))))
    for o in picked:
        label = o['name']
        if ctx.quick:
            truth = rng.sample(TRUTH_FORMS, 2) + rng.sample(TRUTH_FORMS_MORE, 1 if rng.random() < 0.5 else 0)
            others = rng.sample(REACH_FORMS, 1)
        else:
            truth = TRUTH_FORMS + TRUTH_FORMS_MORE
            others = rng.sample(REACH_FORMS, 3)
        for kind, form in truth + others:
            reach = label if rng.random() < 0.7 else "box.a['k'][0][%r]" % label
            text = form % reach
            if (kind, form) in others:
                plan = [(text, 'complete' if text.endswith('.') else 'infer'),
                        (text, rng.choice([m for m in METHODS if m != 'complete']))]
            else:
                plan = [(text + '.', 'complete')]
                plan += [(text, m) for m in rng.sample(['infer', 'goto', 'help'], ctx.size(1, 3))]
            for unsafe in (False, True):
                env.set(unsafe)
                for expr, method in plan:
                    case = {'source': src, 'flavor': 'mro', 'expr': expr, 'method': method, 'unsafe': unsafe,
                            'target': label, 'target_class': None, 'target_kind': 'instance',
                            'bases': o['bases']}
                    rec.reset()
                    err = res = None
                    try:
                        res = run_query(expr, [names], method)
                    except Exception as e:
                        err = e
                    events = rec.take()
                    hist = judge_events(ctx, rec, events, ns, None, case, unsafe)
                    if err is not None:
                        ctx.count('raised', (expr, method, unsafe), nontrivial=False,
                                  bucket='%s:%s@%s' % ((kind,) + common.exc_site(err)))
                    ctx.count('oracle', (src, expr, method, unsafe), nontrivial=bool(events) or bool(res),
                              bucket='mro/%s/%s/%s' % (kind, method, 'unsafe' if unsafe else 'safe'),
                              sample={'expr': expr, 'method': method, 'unsafe': unsafe, 'flavor': 'mro',
                                      'bases': o['bases'], 'counters': hist,
                                      'n_results': len(res) if res is not None else None})
                    if kind == 'dot' and method == 'complete' and err is None and reach == label:
                        missing = sorted(set(dir(ns[label])) - {c.name for c in res})
                        ctx.count('dir', (src, expr, unsafe), nontrivial=True, bucket='mro/instance')
                        if missing:
                            ctx.fail('dir', 'names of dir(obj) are not offered after `obj.`', case,
                                     expected={'dir_subset_of_completions': True},
                                     observed={'missing': missing[:20], 'n_offered': len(res)},
                                     how='jedi.Interpreter(expr, [ns]).complete() names vs dir(ns[target])')
    env.restore()


# ------------------------------------------------------------------ infer on plain paths

PATH_SRC = G.PRELUDE + '''
import types as _types
class Slotted:
    __slots__ = ('s1', 's2')
class Holder:
    cattr = K()
def func_a(x):
    return x
leaf_values = {'int': 5, 'str': 'txt', 'float': 2.5, 'bytes': b'b', 'inst': K(), 'func': func_a, 'cls': K,
               'tuple': (1, 2), 'list': [1], 'dict': {'q': 1}, 'dyn': type('DynP', (), {'v': 1})(),
               'holder': Holder(), 'complex': 3j}
'''


def gen_path(rng, leaves, depth):
    """build nested live structure; returns (root object, expr suffix, leaf object)"""
    leaf_key = rng.choice(sorted(leaves))
    leaf = leaves[leaf_key]
    node = leaf
    suffix = ''
    for _ in range(depth):
        step = rng.choice(['attr', 'ns', 'dictkey', 'listidx', 'tupleidx', 'slot', 'dynattr'])
        if step == 'attr':
            h = leaves['__Holder']()
            n = rng.choice(['p', 'q', 'r'])
            vars(h)[n] = node
            node, suffix = h, '.%s%s' % (n, suffix)
        elif step == 'ns':
            n = rng.choice(['p', 'q'])
            node, suffix = types.SimpleNamespace(**{n: node}), '.%s%s' % (n, suffix)
        elif step == 'dictkey':
            k = rng.choice(['k', 'key two', 0, 3])
            node, suffix = {k: node, 'other': 1}, '[%r]%s' % (k, suffix)
        elif step == 'listidx':
            pre = [0] * rng.randint(0, 2)
            neg = rng.random() < 0.3
            lst = pre + [node]
            node, suffix = lst, '[%d]%s' % (-1 if neg else len(pre), suffix)
        elif step == 'tupleidx':
            pre = ('x',) * rng.randint(0, 2)
            node, suffix = pre + (node,), '[%d]%s' % (len(pre), suffix)
        elif step == 'slot':
            s = leaves['__Slotted']()
            s.s1 = node
            s.s2 = 0
            node, suffix = s, '.s1%s' % suffix
        else:
            d = type('DynH', (), {})()
            d.val = node
            node, suffix = d, '.val%s' % suffix
    return node, suffix, leaf, leaf_key


def expected_report(leaf):
    if isinstance(leaf, type):
        return ('class', leaf.__name__)
    if isinstance(leaf, types.FunctionType):
        return ('function', leaf.__name__)
    return ('instance', type(leaf).__name__)


def stream_inferpath(ctx, env, rec, n):
    rng = ctx.subrng('inferpath')
    ns = G.build(PATH_SRC, rec)
    leaves = dict(ns['leaf_values'])
    for i in range(n):
        root, suffix, leaf, leaf_key = _gen_path2(rng, leaves, ns)
        expr = 'x' + suffix
        for unsafe in (False, True):
            env.set(unsafe)
            rec.reset()
            case = {'expr': expr, 'unsafe': unsafe, 'leaf': leaf_key, 'prelude': 'PATH_SRC'}
            try:
                defs = run_query(expr, [{'x': root}], 'infer')
            except Exception as e:
                ctx.count('raised', (expr, unsafe), nontrivial=False, bucket='inferpath:%s@%s' % common.exc_site(e))
                continue
            got = sorted({(d.type, d.name) for d in defs})
            want = expected_report(leaf)
            ctx.count('inferpath', (expr, leaf_key, unsafe), nontrivial=True,
                      bucket='depth=%d/%s' % (suffix.count('.') + suffix.count('['), leaf_key),
                      sample={'expr': expr, 'leaf': leaf_key, 'reported': got})
            if got != [want]:
                ctx.fail('inferpath', 'infer on a plain attribute / builtin item path does not report the class '
                         'of the stored object', case, expected=list(want), observed=got,
                         how='structure rebuilt by harness.props.c13._gen_path2 from the seed; '
                             'jedi.Interpreter(expr, [{"x": root}]).infer()')
    env.restore()


def _gen_path2(rng, leaves, ns):
    leaf_key = rng.choice(sorted(leaves))
    sub = {leaf_key: leaves[leaf_key], '__Holder': ns['Holder'], '__Slotted': ns['Slotted']}
    return gen_path(rng, sub, rng.randint(1, 4))


# ------------------------------------------------------------------ dunder-named properties

DUNDER_PROPS = ['__doc__', '__module__', '__wrapped__', '__class__', '__call__', '__iter__', '__getitem__',
                '__annotations__', '__objclass__', '__dict__', '__name__', '__qualname__', '__file__',
                '__path__', '__mro__', '__bases__', '__len__', '__bool__']


def stream_dunder(ctx, env, rec):
    """a property whose *name* is an attribute jedi (or inspect on jedi's behalf) reads itself"""
    for attr in DUNDER_PROPS:
        src = G.PRELUDE + 'class B:\n    x = 1\n    %s = mkprop()\nb = B()\nlst = [b]\n' % attr
        try:
            ns = G.build(src, rec)
        except Exception:
            continue      # e.g. __qualname__ must be a str
        names = {'b': ns['b'], 'lst': ns['lst']}
        env.set(False)
        for expr in ('b', 'b.', 'b.x', 'b(', 'b()', 'b[0]', 'for q in b:\n    q.', 'lst[0].x', 'q = b or 1\nq.'):
            for method in METHODS:
                rec.reset()
                try:
                    run_query(expr, [names], method)
                except Exception as e:
                    ctx.count('raised', (attr, expr, method), nontrivial=False,
                              bucket='dunder:%s@%s' % common.exc_site(e))
                events = rec.take()
                ctx.count('dunder', (attr, expr, method), nontrivial=bool(events), bucket=attr)
                sites = sorted({s for k, o, s in events if k == 'property'})
                if sites:
                    ctx.fail('dunder', 'safe mode executed a property getter whose name is read by '
                             'jedi\'s own introspection',
                             {'source': src, 'attr': attr, 'expr': expr, 'method': method, 'unsafe': False},
                             expected='no property getter runs in safe mode',
                             observed={'counter': 'property', 'sites': sites},
                             how='exec(source); settings.allow_unsafe_interpreter_executions = False; '
                                 'jedi.Interpreter(expr, [{"b": b, "lst": [b]}]).<method>()')
    env.restore()


# ------------------------------------------------------------------ corpus

def run_corpus(ctx, env, rec):
    d = os.path.join(common.CORPUS_DIR, 'C13')
    if not os.path.isdir(d):
        return
    for fn in sorted(os.listdir(d)):
        if not fn.endswith('.json'):
            continue
        with open(os.path.join(d, fn), encoding='utf-8') as f:
            item = json.load(f)
        replay_case(ctx, env, rec, item, stream='oracle', corpus=fn)
    env.restore()


def replay_case(ctx, env, rec, item, stream='oracle', corpus=None, verbose=False):
    src = item['source']
    ns = G.build(src, rec)
    names = {k: v for k, v in ns.items() if not k.startswith('_')}
    info = item.get('info')
    env.set(bool(item.get('unsafe', False)))
    rec.reset()
    err = None
    try:
        res = run_query(item['expr'], [names], item['method'])
    except Exception as e:
        res, err = None, e
    events = rec.take()
    case = {k: item[k] for k in ('source', 'expr', 'method') if k in item}
    case.update({'unsafe': bool(item.get('unsafe', False)), 'flavor': 'exec', 'corpus': corpus})
    case.update(item.get('case_extra', {}))
    if verbose:
        print('results:', res, 'exception:', repr(err))
        print('counters:', [(k, s) for k, o, s in events])
    # owners for corpus items: derive a minimal info from the namespace
    info = {'metas': [], 'classes': []}
    for k, v in ns.items():
        if isinstance(v, type) and v.__module__ == 'c13graph' and k not in ('ND', 'DD', 'DDel', 'SO', 'K'):
            (info['metas'] if issubclass(v, type) else info['classes']).append(
                {'name': k, 'is_meta': issubclass(v, type)})
    judge_events(ctx, rec, events, ns, info, case, case['unsafe'], stream=stream)
    ctx.count('corpus', (src, item['expr'], item['method']), nontrivial=True, bucket=corpus or 'replay')
    return events


# ------------------------------------------------------------------ comparison

def compare(ctx, cases, answers):
    for (stream, case, impl), ans in zip(cases, answers):
        if isinstance(ans, dict) and ('error' in ans or 'protocol_error' in ans):
            raise common.InfraError('driver error: %r' % ans)
        ok = True
        nontrivial = True
        bucket = None
        if stream == 'table':
            ok = ans == impl
            bucket = impl
        elif stream == 'getattr':
            m_found = ans['found'] is not None
            ok = m_found == impl['found'] and ans['trace'] == impl['trace']
            if ok and m_found and not ans['viaGet']:
                ok = ans['found'] == impl['val']
            nontrivial = impl['found']
            bucket = 'trace=%d/%s' % (len(impl['trace']), 'found' if impl['found'] else 'missing')
        elif stream == 'static':
            ok = ans == impl['res'] and not impl['moved']
            nontrivial = impl['res'] is not None
            bucket = 'miss' if impl['res'] is None else ('isGet' if impl['res']['isGet'] else 'plain')
        elif stream == 'allowed':
            ok = ans == impl['res'] and not impl['moved']
            nontrivial = impl['res'][0]
            bucket = '%s/%s' % ('safe' if case['safe'] else 'unsafe', ''.join('TF'[not x] for x in impl['res']))
        elif stream == 'filter':
            ok = ans['outcome'] == impl['outcome'] and ans['trace'] == impl['trace'] and not impl['get_moved']
            nontrivial = impl['outcome'] != 'absent'
            bucket = '%s/%s/trace=%d' % ('unsafe' if case['unsafe'] else 'safe', impl['outcome'], len(impl['trace']))
        elif stream == 'e2e_attr':
            ok = sorted(set(ans['trace'])) == impl['trace_set']
            nontrivial = True
            bucket = '%s/%s/trace=%d' % ('unsafe' if case['unsafe'] else 'safe', ans['outcome'],
                                         len(impl['trace_set']))
        elif stream == 'values':
            ok = ans == impl['names']
            bucket = 'n=%d' % (len(ans) // 10 * 10)
        elif stream == 'getitem':
            ok = ans['reached'] == impl['reached'] and ans['events'] == impl['events']
            bucket = '%s/%s/%s' % ('safe' if case['safe'] else 'unsafe',
                                   'reached' if impl['reached'] else 'refused', ','.join(impl['events']) or '-')
        elif stream == 'mixedgetitem':
            ok = ans['events'] == impl['events'] and (ans['reached'] == impl['compiled_path'] or
                                                      (impl['compiled_path'] and not ans['reached']
                                                       and not case['unsafe'] and False))
            bucket = '%s/%s' % ('unsafe' if case['unsafe'] else 'safe', 'compiled' if impl['compiled_path'] else 'tree')
        elif stream == 'iterlist':
            shape = impl['shape']
            m = ans['outcome']
            if m == 'noIter':
                ok = shape == 'noIter'
            elif m == 'refused':
                ok = shape == 'refused'
            elif m == 'annotation':
                ok = shape == 'nonempty:1'
            else:
                want = min(impl['len'], 21) if impl['len'] is not None else None
                ok = shape == ('nonempty:%d' % want if want else 'refused')
            ok = ok and [e.split(':')[0] for e in ans['events']] == impl['events']
            bucket = m
        elif stream == 'pyiter':
            ok = [e.split(':')[0] for e in ans] == impl['events']
            bucket = ','.join(impl['events']) or '-'
        elif stream == 'hasiter':
            ok = ans['result'] == impl['result'] and ans['events'] == impl['events']
            bucket = '%s/%s' % (impl['result'], ','.join(impl['events']) or '-')
        elif stream == 'builtinbool':
            ok = ans == impl['res'] and not impl['moved']
            nontrivial = any(len(c) > 0 for c in case['mro']) and len(case['mro']) > 2
            bucket = '%s/bases=%d/bool() runs %s' % (impl['res'], len(case['mro']) - 2,
                                                      ','.join(impl['bool_runs']) or '-')
        elif stream == 'boolmro':
            ok = ans['reached'] == impl['reached'] and ans['events'] == impl['events']
            nontrivial = len(case['mro']) > 2
            bucket = '%s/%s/%s/mro=%d' % ('unsafe' if case['unsafe'] else 'safe',
                                         'reached' if impl['reached'] else 'refused',
                                         ','.join(impl['events']) or '-', min(len(case['mro']), 5))
        elif stream == 'bool':
            ok = ans['reached'] == impl['reached'] and ans['events'] == impl['events']
            bucket = '%s/%s/%s' % ('unsafe' if case['unsafe'] else 'safe',
                                   'reached' if impl['reached'] else 'refused', ','.join(impl['events']) or '-')
        ctx.count(stream, json.dumps(case, sort_keys=True, default=str), nontrivial=bool(nontrivial), bucket=bucket,
                  sample={k: v for k, v in case.items() if k != 'graph'} if isinstance(case, dict) else case)
        direct_checks(ctx, stream, case, impl)
        if ok:
            continue
        ctx.tie_broken('correspondence:' + stream, short({'case': {k: v for k, v in case.items() if k != 'graph'},
                                                          'impl': impl, 'model': ans}, 1500))
        search_failing_input(ctx, stream, case, impl, ans)


def direct_checks(ctx, stream, case, impl):
    """property-level demands on unit streams that are evaluated whether or not the model agrees"""
    how = 'see stream description in harness/props/c13.py; graph source is part of the input'
    flat = dict(case)
    if 'graph' in flat:
        flat['source'] = flat.pop('graph')['source']
    if stream == 'values':
        missing = sorted(set(impl['dir']) - set(impl['names']))
        if missing:
            ctx.fail('values', 'CompiledValueFilter.values() drops names of dir(obj)', flat,
                     expected='superset of dir(obj)', observed={'missing': missing[:20]}, how=how)
        if impl['moved'] and not case['unsafe']:
            ctx.fail('values', 'values() executed user code in safe mode', flat, expected=[], observed=impl, how=how)
    elif stream in ('static', 'allowed') and impl['moved']:
        ctx.fail(stream, 'static attribute lookup executed user code', flat, expected=[], observed=impl, how=how)
    elif stream == 'getitem' and case['safe'] and impl['events']:
        ctx.fail(stream, 'safe mode item access executed a user __getitem__', flat, expected=[],
                 observed=impl, how=how)


def search_failing_input(ctx, stream, case, impl, ans):
    """the property itself, evaluated on what the real code did for this input (never the model)"""
    how = 'see stream description in harness/props/c13.py; graph source is part of the input'
    flat = dict(case)
    if 'graph' in flat:
        flat['source'] = flat.pop('graph')['source']
    if stream == 'filter' and not case['unsafe']:
        if impl['trace'] or impl['other'] or impl['get_moved']:
            ctx.fail('filter', 'safe mode: CompiledValueFilter.get(name) + infer() executed user code', flat,
                     expected='no user __get__ / property getter', observed=impl, how=how)
    elif stream == 'mixedgetitem' and case.get('unsafe') is False:
        if impl['events']:
            ctx.fail(stream, 'safe mode item access executed a user __getitem__', flat, expected=[],
                     observed=impl, how=how)
    elif stream == 'builtinbool':
        # the property on this input: the guard may say "only builtin code" only if bool(obj) runs no
        # user __bool__ / __len__ (measured), and the safe py__bool__() of the real code ran none
        if (impl['res'] is True and impl['bool_runs']) or impl['safe_events'] or impl['moved']:
            ctx.fail(stream, '_has_builtin_bool(obj) answers True for an object whose bool() runs a user-defined '
                     'special method / safe py__bool__ executed it', flat, expected={'_has_builtin_bool': False},
                     observed=dict(impl, counter=(impl['bool_runs'] + impl['safe_events'] + impl['moved'])[0]),
                     how=how)
    elif stream in ('iterlist', 'hasiter', 'pyiter', 'bool', 'boolmro'):
        if impl['events'] and not case.get('unsafe', False):
            ctx.fail(stream, 'iteration / truth value executed a user special method', flat, expected=[],
                     observed=dict(impl, counter=impl['events'][0]), how=how)
    elif stream == 'e2e_attr' and not case['unsafe'] and impl['trace_set']:
        ctx.fail('e2e_attr', 'safe mode infer on obj.name executed a user __get__', flat, expected=[],
                 observed=impl, how=how)
    elif stream == 'table':
        # the table is the mechanism itself: a row that yields a real name for a descriptor in safe
        # mode is a failing input of the property
        if not case['unsafe'] and impl in ('realName', 'realName:descriptor') and (case['isDescr'] or not case['has']):
            ctx.fail('table', 'CompiledValueFilter._get returns a real (getattr-executing) name for a '
                     'descriptor / missing attribute in safe mode', case, expected='emptyName', observed=impl,
                     how='CompiledValueFilter._get with stub callbacks, see stream_table')
        if impl == 'absent' and not case['checkHas'] and case['inDir'] and not (case['annPresent'] and case['annValues']):
            ctx.fail('table', 'CompiledValueFilter._get drops a name of dir(obj)', case, expected='a name',
                     observed=impl, how='CompiledValueFilter._get with stub callbacks, see stream_table')


# ------------------------------------------------------------------ entry points

def run(ctx):
    load_own_known(ctx)
    env = Env()
    rec = G.Recorder(common.REPO)
    reqs, cases = [], []
    tmpdir = tempfile.mkdtemp(prefix='c13-graphs-')
    try:
        run_corpus(ctx, env, rec)
        stream_table(ctx, reqs, cases)
        reg = G.Registry()
        stream_containers(ctx, env, rec, reqs, cases, reg)
        rng = ctx.subrng('graphs')
        n_graphs = ctx.size(4, 60)
        for gi in range(n_graphs):
            src, info = G.gen_graph(rng)
            ns = G.build(src, rec, 'exec')
            stream_units(ctx, env, rec, reqs, cases, src, info, ns, reg, rng)
        n_e2e = ctx.size(7, 80)
        for gi in range(n_e2e):
            src, info = G.gen_graph(rng, n_classes=rng.randint(2, 4))
            flavor = 'file' if gi % 3 == 2 else 'exec'
            ns = G.build(src, rec, flavor, tmpdir)
            stream_oracle(ctx, env, rec, reqs, cases, src, info, ns, reg, rng, flavor, ctx.size(22, 60))
        mrng = ctx.subrng('protomro')
        for gi in range(ctx.size(1, 4)):
            stream_protomro(ctx, env, rec, reqs, cases, reg, mrng)
        stream_inferpath(ctx, env, rec, ctx.size(120, 1500))
        stream_dunder(ctx, env, rec)
    finally:
        env.restore()
        shutil.rmtree(tmpdir, ignore_errors=True)
    ctx.count('setting', 'copied', nontrivial=True, bucket='mismatch' if env.mismatch else 'copied')
    if env.mismatch:
        ctx.fail('setting', 'settings.allow_unsafe_interpreter_executions is not what the inference state of a new '
                 'Interpreter uses', {'setting': env.mismatch['setting']}, expected=env.mismatch['setting'],
                 observed=env.mismatch,
                 how='settings.allow_unsafe_interpreter_executions = <setting>; '
                     'jedi.Interpreter("", [{}])._inference_state.allow_unsafe_executions')
    if ctx.model_ok:
        answers = common.run_driver_parallel('C13', reqs + [{'op': 'config'}])
        ctx.notes.append('py__bool__ configuration read by the translator: %s' % json.dumps(answers[-1]))
        compare(ctx, cases, answers[:-1])
    else:
        ctx.notes.append('model did not build: correspondence skipped, oracle only')
    ctx.obligations['assumptions'] = [
        'CPython descriptor protocol (object/type __getattribute__) is modelled by pyGetattr and sampled by stream getattr',
        'classes defining __getattribute__/__getattr__/__dir__, `__class__` properties: outside the trace '
        'alphabet of the model; the oracle counts them (bucket other-hooks) and does not judge them: the '
        'property statement does not list them',
        'metaclasses shadowing __dict__, metaclass __eq__ (used by `type(obj) in ALLOWED_GETITEM_TYPES`), dict '
        'subclasses overriding values()/keys(): not generated, not modelled',
        'whether a property return annotation infers to values (annValues) and `name in dir(obj)` (inDir) are '
        'parameters of the model, read from the real run',
        'what the static special-method lookup finds (Slot: absent / builtin descriptor type / python function / '
        'None / other) is classified by the harness from the class dictionaries; special methods of builtin '
        'types are slot wrappers or absent (Ty.slot of `.builtin`): sampled by streams bool / hasiter on the '
        'container zoo',
        'CPython bool(obj) on a class with several bases: __bool__ anywhere along the MRO, only then __len__ '
        '(boolCallEventsMro): sampled by stream boolmro in unsafe mode (the counters of the real bool(obj))',
    ]


def replay(ctx, payload):
    load_own_known(ctx)
    env = Env()
    rec = G.Recorder(common.REPO)
    inp = payload['input']
    try:
        if 'expr' in inp and 'source' in inp:
            item = {'source': inp['source'], 'expr': inp['expr'], 'method': inp.get('method', 'infer'),
                    'unsafe': inp.get('unsafe', False)}
            events = replay_case(ctx, env, rec, item, verbose=True)
            print('forbidden counters that moved:', [(k, s) for k, o, s in events if k in FORBIDDEN])
        else:
            print('input:', short(inp, 3000))
        print('expected:', payload.get('expected'))
        print('observed at record time:', payload.get('observed'))
    finally:
        env.restore()
    return 0

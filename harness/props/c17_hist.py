"""C17, stream `history`: sequences of queries (with repetition) on ONE Script object.

After EVERY call of the history
  * every returned Name / Completion / Signature must satisfy the position clauses of the property
    (text at (line, column) is the name, the definition range encloses it, get_line_code() is that
    very line) - `props.c17.check_result_object`, the same oracle as stream `results`;
  * every `get_names(...)` answer is compared with an oracle built from Python's own `tokenize` and
    `ast` (never from an earlier answer of jedi):
      all_scopes=True, definitions=True, references=True : every identifier token exactly once, and
          is_definition() true exactly for the binding tokens          (the sentence of the property)
      all_scopes=True, other flags : exactly the binding / the non-binding tokens / nothing
      all_scopes=False : no token twice, only tokens of the requested kind, none from inside a
          def / class / lambda body, and at least the names bound / used directly by the top-level
          statements (sound bounds: which part of a comprehension or a default value counts as module
          scope is jedi's own business).

Workers are fresh interpreters (`common.parallel_map`): one item = one seed string = one program and
one history, so a replay needs nothing but (source, history)."""
import ast
import io
import keyword
import os
import random
import re
import tokenize

import common
from gen import c17_histories as H

MAX_OBJECTS = 25      # judged per step


# ------------------------------------------------------------------ the oracle for get_names

def _byte_to_char(line_text, byte_col):
    return len(line_text.encode('utf-8')[:byte_col].decode('utf-8', 'replace'))


def name_oracle(text):
    """None when Python itself cannot tell (invalid program, lone CR line ends, byte order mark),
    else {'tokens': [(line, col, string)], 'binds': set((line, col)) | None,
          'top_defs': set, 'top_refs': set, 'inner': set}"""
    from props.c17 import binding_tokens
    if text.startswith('\ufeff') or re.search(r'\r(?!\n)', text):
        return None
    try:
        toks = [t for t in tokenize.generate_tokens(io.StringIO(text).readline)
                if t.type == tokenize.NAME and not keyword.iskeyword(t.string)]
        tree = ast.parse(text)
        binds = binding_tokens(text)
    except (SyntaxError, tokenize.TokenError, IndentationError, ValueError):
        return None
    tokens = sorted((t.start[0], t.start[1], t.string) for t in toks)
    positions = {(l, c) for (l, c, _) in tokens}
    by_pos = {(l, c): s for (l, c, s) in tokens}
    lines = text.split('\n')

    def cc(lineno, bcol):
        return (lineno, _byte_to_char(lines[lineno - 1], bcol))

    def target_names(t, out):
        if isinstance(t, ast.Name):
            out.add(cc(t.lineno, t.col_offset))
        elif isinstance(t, (ast.Tuple, ast.List)):
            for e in t.elts:
                target_names(e, out)
        elif isinstance(t, ast.Starred):
            target_names(t.value, out)

    def loads(node, out):
        """Name(Load) tokens of an expression, not looking into lambdas / comprehensions / walrus"""
        if node is None or isinstance(node, (ast.Lambda, ast.ListComp, ast.SetComp, ast.DictComp,
                                             ast.GeneratorExp, ast.NamedExpr)):
            return
        if isinstance(node, ast.Name) and isinstance(node.ctx, ast.Load):
            out.add(cc(node.lineno, node.col_offset))
        for ch in ast.iter_child_nodes(node):
            loads(ch, out)

    top_defs, top_refs, inner_ranges = set(), set(), []
    for st in tree.body:
        if isinstance(st, (ast.FunctionDef, ast.AsyncFunctionDef, ast.ClassDef)):
            start = cc(st.lineno, st.col_offset)
            after = sorted(p for p in positions if p > start and by_pos[p] == st.name)
            if after:
                top_defs.add(after[0])
        elif isinstance(st, ast.Assign):
            for t in st.targets:
                target_names(t, top_defs)
            loads(st.value, top_refs)
        elif isinstance(st, ast.AugAssign):
            target_names(st.target, top_defs)
            loads(st.value, top_refs)
        elif isinstance(st, ast.AnnAssign) and st.value is not None:
            target_names(st.target, top_defs)
        elif isinstance(st, ast.Expr):
            loads(st.value, top_refs)
        elif isinstance(st, (ast.For, ast.AsyncFor)):
            target_names(st.target, top_defs)
            loads(st.iter, top_refs)
    for node in ast.walk(tree):
        if isinstance(node, (ast.FunctionDef, ast.AsyncFunctionDef, ast.ClassDef)):
            for st in node.body:
                inner_ranges.append((cc(st.lineno, st.col_offset), cc(st.end_lineno, st.end_col_offset)))
        elif isinstance(node, ast.Lambda):
            b = node.body
            inner_ranges.append((cc(b.lineno, b.col_offset), cc(b.end_lineno, b.end_col_offset)))
    inner = {p for p in positions if any(a <= p < b for a, b in inner_ranges)}
    if binds is not None:
        binds = binds & positions
        top_defs &= binds
        top_refs = (top_refs & positions) - binds
    else:
        top_defs, top_refs = set(), set()
    return {'tokens': tokens, 'binds': binds, 'top_defs': top_defs - inner, 'top_refs': top_refs - inner,
            'inner': inner,
            'line_starts_with_formfeed': lambda l: '\x0c' in lines[l - 1][:len(lines[l - 1]) - len(lines[l - 1].lstrip(' \t\x0c'))]}


def judge_names(oracle, flags, names):
    """None, or (what, expected, observed) for one get_names(flags) answer"""
    a, d, r = flags
    got = sorted((n.line, n.column, n.name) for n in names)
    tokens = oracle['tokens']
    binds = oracle['binds']
    dup = sorted(set(x for x in got if got.count(x) > 1))

    def diff(want):
        return {'flags': list(flags), 'reported': len(got), 'identifier_tokens': len(tokens),
                'missing': [x for x in want if x not in got][:6], 'extra': [x for x in got if x not in want][:6],
                'duplicates': dup[:6]}
    if a and d and r:
        if got != tokens:
            return ('get_names does not report every identifier token exactly once', tokens, diff(tokens))
        if binds is not None:
            defs = {(n.line, n.column) for n in names if n.is_definition()}
            if defs != binds:
                return ('is_definition() differs from the binding tokens', sorted(binds),
                        {'definition_but_not_binding': sorted(defs - binds)[:6],
                         'binding_but_not_definition': sorted(binds - defs)[:6]})
        return None
    if dup:
        return ('get_names reports an identifier token twice', None, diff(sorted(set(got))))
    extra = [x for x in got if x not in tokens]
    if extra:
        return ('get_names reports a name that is no identifier token', tokens, diff(tokens))
    if not d and not r:
        return ('get_names(definitions=False, references=False) reports names', [], diff([])) if got else None
    if binds is None:
        return None
    kind = [t for t in tokens if ((t[0], t[1]) in binds) == d] if d != r else tokens
    if a:
        if got != kind:
            return ('get_names(all_scopes=True) does not report exactly the %s tokens'
                    % ('binding' if d else 'non-binding'), kind, diff(kind))
        return None
    wrong_kind = [x for x in got if x not in kind]
    if wrong_kind:
        return ('get_names(definitions=%s, references=%s) reports a name of the other kind' % (d, r), None,
                {'flags': list(flags), 'wrong_kind': wrong_kind[:6]})
    inside = [x for x in got if (x[0], x[1]) in oracle['inner']]
    if inside:
        return ('get_names(all_scopes=False) reports a name from inside a def / class / lambda body', None,
                {'flags': list(flags), 'inside': inside[:6]})
    must = set()
    if d:
        must |= oracle['top_defs']
    if r:
        must |= oracle['top_refs']
    have = {(x[0], x[1]) for x in got}
    missing = sorted(must - have)
    if missing:
        # a form feed at the start of a line: Python ignores it for the indentation, parso's tokenizer counts it
        # as one column (known finding C17-formfeed-line-start-scope)
        ff = all(oracle['line_starts_with_formfeed'](l) for (l, _) in missing)
        return ('get_names(all_scopes=False) misses names of the top-level statements',
                sorted(must), {'flags': list(flags), 'reported': len(got), 'missing': missing[:6],
                               'every_missing_name_on_a_line_that_starts_with_a_form_feed': ff},
                {'check': 'top-level-names', 'formfeed_line': ff})
    return None


# ------------------------------------------------------------------ executing one history

class Rec:
    """stands in for Ctx inside props.c17.check_result_object"""

    def __init__(self):
        self.fails = []
        self.judged = 0

    def count(self, *a, **k):
        self.judged += 1

    def fail(self, stream, what, case, expected=None, observed=None, how=None, **k):
        self.fails.append({'what': what, 'expected': expected, 'observed': observed,
                           'bom': bool(case.get('bom')), 'method': case.get('method')})


def execute(script, op, kept):
    o = op['op']
    if o == 'get_names':
        return script.get_names(all_scopes=op['all_scopes'], definitions=op['definitions'],
                                references=op['references'])
    if o in ('search', 'complete_search'):
        return list(getattr(script, o)(op['string'], all_scopes=bool(op.get('all_scopes'))))
    if o == 'get_syntax_errors':
        return script.get_syntax_errors()
    if o == 'get_references':
        return script.get_references(op['line'], op['column'], scope='file')
    if o == 'name':
        src = kept[op['of']] if op['of'] < len(kept) else []
        if not src:
            return []
        obj = src[op['index'] % len(src)]
        if op['call'] == 'again':
            return [obj]
        m = getattr(obj, op['call'], None)
        return m() if m is not None else []
    return getattr(script, o)(op['line'], op['column'])


def buffer_path(tag):
    return os.path.join(common.VERIF, 'replays', '_c17_hist_%s.py' % tag)    # need not exist


def run_history(text, ops, tag='x', verbose=None, stop_at_first=True):
    """-> {'steps': [...], 'fails': [{'step', 'what', 'expected', 'observed', ...}], 'judged', 'raised'}"""
    import jedi
    from props.c17 import check_result_object
    from props.c01 import exc_key
    path = buffer_path(tag)
    out = {'steps': [], 'fails': [], 'judged': 0, 'raised': {}, 'names_judged': 0}
    oracle = name_oracle(text)
    try:
        script = jedi.Script(text, path=path)
    except Exception as e:
        out['raised']['Script:%s@%s' % exc_key(e)] = 1
        return out
    kept = []
    stats = {}
    for i, op in enumerate(ops):
        lab = H.label(op)
        try:
            res = execute(script, op, kept)
        except Exception as e:
            k = '%s@%s' % exc_key(e)
            out['raised'][k] = out['raised'].get(k, 0) + 1     # totality is C01's statement
            kept.append([])
            out['steps'].append({'label': lab, 'results': None})
            if verbose:
                verbose('%2d %-44s raised %s' % (i, lab, k))
            continue
        if res is None:
            res = []
        elif not isinstance(res, (list, tuple)):
            res = [res]
        res = [x for x in res if x is not None]
        kept.append(list(res))
        rec = Rec()
        for obj in res[:MAX_OBJECTS]:
            if type(obj).__name__ != 'SyntaxError':
                check_result_object(rec, path, text, lab, obj, stats)
        out['judged'] += rec.judged
        step_fails = [dict(f, step=i) for f in rec.fails[:1]]
        if op['op'] == 'get_names' and oracle is not None:
            out['names_judged'] += 1
            try:
                v = judge_names(oracle, (op['all_scopes'], op['definitions'], op['references']), res)
            except Exception as e:
                out['raised']['judge:%s@%s' % exc_key(e)] = 1
                v = None
            if v is not None:
                step_fails.append({'step': i, 'what': v[0], 'expected': v[1], 'observed': v[2], 'bom': False,
                                   'method': lab, 'tags': v[3] if len(v) > 3 else {}})
        out['steps'].append({'label': lab, 'results': len(res)})
        if verbose:
            verbose('%2d %-44s %3d results%s' % (i, lab, len(res),
                                                ''.join('   <-- ' + f['what'] + ': ' + common.short(f['observed'], 400)
                                                        for f in step_fails)))
        out['fails'].extend(step_fails)
        # a known layout defect (form feed, see judge_names) does not end the history
        if stop_at_first and any(not (f.get('tags') or {}).get('formfeed_line') for f in step_fails):
            break
    return out


def _without(ops, i):
    """ops without step i, or None when a later step uses its results"""
    out = []
    for j, op in enumerate(ops):
        if j == i:
            continue
        if op['op'] == 'name':
            if op['of'] == i:
                return None
            if op['of'] > i:
                op = dict(op, of=op['of'] - 1)
        out.append(op)
    return out


def shrink(text, ops, what, tag, budget=40):
    """greedy: the shortest sub-history (ending with the failing step) with the same failure"""
    cur = list(ops)
    i = len(cur) - 2
    while i >= 0 and budget > 0:
        cand = _without(cur, i)
        if cand is not None:
            budget -= 1
            r = run_history(text, cand, tag)
            if any(f['what'] == what and f['step'] == len(cand) - 1 for f in r['fails']):
                cur = cand
        i -= 1
    return cur


def history_item(seed):
    """worker of common.parallel_map: one program, one history"""
    rng = random.Random(seed)
    family, text = H.gen_text(rng)
    ops = H.gen_history(rng, text, rng.randint(5, 11))
    tag = re.sub(r'\W', '_', seed)
    r = run_history(text, ops, tag)
    rec = {'seed': seed, 'family': family, 'text': text, 'labels': [s['label'] for s in r['steps']],
           'results': [s['results'] for s in r['steps']], 'judged': r['judged'], 'names_judged': r['names_judged'],
           'raised': r['raised'], 'fails': []}
    soft = [f for f in r['fails'] if (f.get('tags') or {}).get('formfeed_line')]
    hard = [f for f in r['fails'] if not (f.get('tags') or {}).get('formfeed_line')]
    for f in hard[:1] + soft[:1]:
        upto = ops[:f['step'] + 1]
        small = shrink(text, upto, f['what'], tag)
        again = [g for g in run_history(text, small, tag)['fails']
                 if g['what'] == f['what'] and g['step'] == len(small) - 1]
        if again:
            f = dict(again[0])
            upto = small
        f['history'] = upto
        rec['fails'].append(f)
    return rec


# ------------------------------------------------------------------ main-process side

class Job:
    """started before and collected after the in-process streams"""

    def __init__(self, ctx, jobs=12):
        import threading
        n = ctx.size(280, 6000)
        self.items = ['C17-%s-hist-%d' % (ctx.seed, i) for i in range(n)]
        # histories of ONE project file (props/c17_files.py), spread evenly over the same workers
        nf = ctx.size(160, 4000)
        every = max(1, n // nf)
        files = ['C17-%s-file-%d' % (ctx.seed, i) for i in range(nf)]
        mixed = []
        for i, it in enumerate(self.items):
            mixed.append(it)
            if i % every == 0 and files:
                mixed.append(files.pop())
        self.items = mixed + files
        self.jobs = jobs
        self.result = self.error = None
        self.wall = 0.0
        self.thread = threading.Thread(target=self._run, daemon=True)
        self.thread.start()

    def _run(self):
        import time
        t0 = time.time()
        try:
            self.result = common.parallel_map('props.c17_files', 'item', self.items, jobs=self.jobs)
        except BaseException as e:     # noqa: re-raised in the main thread
            self.error = e
        self.wall = time.time() - t0

    def finish(self, ctx):
        self.thread.join()
        if self.error is not None:
            raise self.error
        from props import c17_files
        frecs = [r for r in self.result if r.get('kind') == 'file']
        self.result = [r for r in self.result if r.get('kind') != 'file']
        for rec in self.result:
            judge_record(ctx, rec)
        for rec in frecs:
            c17_files.judge_record(ctx, rec)
        ctx.notes.append('files stream: %d histories of one project file, %d analyses (Script(path=p) / Script(buffer, path=p)) '
                         'judged against the text they analyse, %d of them with the tokenize/ast oracle, %d returned objects judged'
                         % (len(frecs), sum(r['analyses'] for r in frecs), sum(r['with_oracle'] for r in frecs),
                            sum(r['judged'] for r in frecs)))
        steps = sum(len(r['labels']) for r in self.result)
        ctx.notes.append('history stream: %d histories on one Script each, %d calls, %d get_names answers compared '
                         'with tokenize/ast, %d returned objects judged, %.0f s wall of %d workers (concurrent)'
                         % (len(self.result), steps, sum(r['names_judged'] for r in self.result),
                            sum(r['judged'] for r in self.result), self.wall, self.jobs))


HOW = ('script = jedi.Script(source, path=...); run the calls of `history` in order on this ONE script; '
       'the last call gives the observed answer (./check C17 --replay <this file>)')


def judge_record(ctx, rec):
    text, labels = rec['text'], rec['labels']
    seen = set()
    for i, lab in enumerate(labels):
        kind = lab.split('(')[0] if not lab.startswith('step') else 'name.' + lab.split('.')[-1][:-2]
        ctx.count('history', (text, tuple(labels[:i + 1])), nontrivial=rec['results'][i] is not None,
                  bucket=kind + ('/asked-before' if lab in seen else ''),
                  sample={'source': text, 'history': labels} if i == len(labels) - 1 else None)
        seen.add(lab)
    for k, n in rec['raised'].items():
        for _ in range(n):
            ctx.count('raised', None, nontrivial=False, bucket=k)
    for f in rec['fails']:
        hist = f['history']
        case = {'source': text, 'history': hist, 'calls': [H.label(o) for o in hist], 'family': rec['family'],
                'bom': f.get('bom', False), 'shape': hist[-1]['op']}
        case.update(f.get('tags') or {})
        ctx.fail('history', f['what'], case, expected=f['expected'], observed=f['observed'], how=HOW)


def corpus_cases(ctx):
    """corpus/C17/*.json with a `history`: run first, in process"""
    import json
    cdir = os.path.join(common.CORPUS_DIR, 'C17')
    if not os.path.isdir(cdir):
        return
    for fn in sorted(os.listdir(cdir)):
        with open(os.path.join(cdir, fn), encoding='utf-8') as fh:
            d = json.load(fh)
        if 'history' not in d:
            continue
        r = run_history(d['source'], d['history'], 'corpus_' + re.sub(r'\W', '_', fn), stop_at_first=True)
        rec = {'text': d['source'], 'family': 'corpus', 'labels': [s['label'] for s in r['steps']],
               'results': [s['results'] for s in r['steps']], 'raised': r['raised'],
               'fails': [dict(f, history=d['history'][:f['step'] + 1]) for f in r['fails'][:1]]}
        judge_record(ctx, rec)


def replay(ctx, inp, payload):
    print('source:')
    for i, l in enumerate(inp['source'].splitlines(), 1):
        print('  %2d| %s' % (i, l))
    print('calls on ONE jedi.Script(source), in order:')
    r = run_history(inp['source'], inp['history'], 'replay', verbose=print, stop_at_first=False)
    print('recorded: %s | expected %s | observed %s' % (payload.get('what'), common.short(payload.get('expected'), 300),
                                                       common.short(payload.get('observed'), 600)))
    same = [f for f in r['fails'] if f['what'] == payload.get('what')]
    if same:
        print('REPRODUCED at call %d: %s' % (same[0]['step'], same[0]['what']))
        return 1
    print('not reproduced on this checkout (%s)' % common.REPO)
    return 0

"""C09 - changes to project files on disk are always seen.

Every scenario is a scratch project under /tmp/scratch-c08c09/c09-<id of this checkout>/<sid>/ with its own parso cache
directory, a sequence of file-system mutations (write, overwrite, delete, rename, module<->package,
add/remove __init__.py, add/remove a stub) and, after every mutation, queries through `import`,
`from-import`, star import and relative imports, each through a NEW Script.  mtimes are set
explicitly (os.utime(ns=...)) from a logical clock in MILLISECONDS anchored in the past; pickle files
written by jedi are re-stamped to the same logical clock after every observation, so that every time
comparison parso makes is between numbers the harness (and the model) knows.

Edit spacing (a dimension of every scenario, `Clock`): 'sec' - 10 s between any two events; 'subsec' -
1..13 ms between events, the whole history (writes, observations, pickle files, process changes) lies
within one wall-clock second: strictly increasing stamps at the file system's resolution (ext4 here:
1 ns, checked in `run`), the same integer second; 'mixed' - 1 ms .. 10 s, some events share a second,
some do not.  With 'fresh' stamps the property must hold at every spacing (a layer that compares a
coarser time than the file system's mtime fails exactly here); the adversarial policies keep 'sec'.

Streams
  layers       observer 'same' (one long-lived process) or 'warm' (a new interpreter per step that
               shares the cache directory): which layer served every load of a tracked module file
               (probes around parso.grammar.load_module / try_to_save_module) and which version of
               the file the served tree is, vs Model/DiskCache through Drivers/C09
  oracle       the property: the observer's answers vs a brand-new interpreter with an empty cache
               directory on the same files.  'fresh' stamp policy (every change gets a stamp newer
               than everything before) must never differ; the adversarial policies (same mtime,
               strictly newer but older than the pickle file, rename keeping the mtime) are the
               counter-witnesses of Props/C09 and are reported as known findings when they reproduce
  stubs        which stub file (`pkg/spk.pyi` next to the module / sub-package, `pkg/spk/__init__.pyi`,
               none) every Script that imports the sub-module `pkg.spk` loads, from which layer and which
               version, vs `tryLoadStub` of Model/DiskCache (steps 2-4 of typeshed._try_to_load_stub with
               the directory-listing layer `_create_stub_map`; `Gen.C09.cfg.stubListingCached` is read
               from the decorators of that function)
  nsportion    pkgutil / pkg_resources style namespace package `nsp` over 2-3 sys.path entries
               (Project(added_sys_path=...)): portions `<entry>/nsp/` are created, filled, emptied, removed between
               Scripts; every step asks for every module name of a pool (also absent ones: the lookup then walks all
               candidate directories), same process / new process on the warm cache vs a fresh process
  nspath       the real ModuleValue.py__path__ and the directory the module is found in vs Model/NsPath
  nsfinder     the same histories through raw importlib.machinery.PathFinder in one process, candidates filtered by
               isdir / unfiltered: found directory and negative path_importer_cache entries vs the model
  finder       the helper's importlib FileFinder keeps its directory listing while the directory's
               mtime does not change (known finding)
  wallclock    no explicit stamps at all: plain open()/write(), the kernel's own time stamps; a module is
               overwritten right after a Script looked at it (same process / new process on the warm pickle
               directory), as soon as its mtime reads strictly later (as a float, which is what parso
               compares) than before and than every pickle file; vs a fresh process with an empty cache

Stub layouts (generator `spk_mutation`, deterministic `layout_scenarios`): the sub-module `pkg.spk` is a
module `pkg/spk.py`, a package `pkg/spk/__init__.py`, a namespace directory or absent; its stub is the
sibling file `pkg/spk.pyi`, `pkg/spk/__init__.pyi` or absent; stubs are added / overwritten / removed
and the module is turned into a package (and back) AFTER the package `pkg` was queried in the process.
"""
import hashlib
import json
import os
import random
import shutil
import sys
import time

import common
from common import short

MODELS = ['DiskCache', 'NsPath']
MODEL_TARGETS = ['JediModel.Model.DiskCache', 'JediModel.Model.NsPath', 'JediModel.Gen.C09', 'JediModel.Drivers.C09']
LEAN_TARGETS = ['JediModel.Props.C09', 'JediModel.Drivers.C09']
MANIFEST = dict(
    text='Lean model of the layers between a module file and the tree a Script uses: file system with '
         'writer-chosen mtimes, in-memory parser cache (hit iff p_time <= change_time), pickle cache (outdated iff '
         'p_time > mtime of the pickle file), diff-parse / same-lines / from-scratch branches of Grammar._parse, '
         'per-Script module cache, processes. Proved for ALL histories whose changes carry stamps newer than every '
         'stamp the layers hold for that path (AllOk): the served tree is the parse of the bytes on disk now, a '
         'deleted file is never served, the first resolution in a new Script bypasses everything earlier Scripts '
         'resolved. Kernel-checked counter-witnesses without the hypothesis: same-mtime overwrite, strictly newer '
         'mtime that is older than the pickle file (new process), rename keeping an older mtime, shared module '
         'cache. Stub lookup of a sub-module (typeshed._try_to_load_stub steps 2-4 over the os.listdir map of the '
         'parent package, _create_stub_map): the listing consulted is the present file system (stub_listing_fresh, '
         'from "no memo decorator" read by the translator) and the stub served equals what a fresh process serves '
         '(stub_as_fresh_process_partial); witness stale_if_stub_listing_cached. '
         'WHICH time the layers compare is part of the model (Cfg.stampIsFsMtime / reported): all of the above is '
         'proved from "every get_last_modified reachable from _load_python_module / parse_stub_module returns '
         'os.path.getmtime of the file" (stamp_is_fs_mtime, rfl on the translator-read constant); witness '
         'stale_if_stamp_truncated: a FileIO reporting whole seconds misses a strictly newer rewrite within the second '
         'the tree was cached / pickled in, although AllOk holds. '
         'Namespace portions created later (Model/NsPath): which directories ModuleValue.py__path__ of a pkgutil / '
         'pkg_resources namespace package hands to the helper (only existing ones: the os.path.isdir filter, read by '
         'the translator as nsCfg.filterIsdir) and importlib\'s path_importer_cache as a state machine (a directory met '
         'while missing gets a never-revalidated negative entry): ns_candidates_exist, no_negative_entry_partial, '
         'later_portion_found_partial (every later look answers as a fresh process when the sys.path entries exist at '
         'every look); witnesses stale_if_candidates_unfiltered, stale_if_sys_path_entry_created_later (known finding). '
         'Tie: translator (cache=/diff_cache= keywords, ModuleCache per InferenceState, decorators of '
         '_create_stub_map/_merge_create_stub_map, every get_last_modified of jedi/file_io.py and parso/file_io.py '
         'classified full-resolution / whole-second / unknown, parso\'s two '
         'comparisons as installed) + probed layer/version and stub-choice correspondence on generated mutation sequences '
         'at edit spacings from 1 ms (whole history within one clock second) to 10 s + '
         'direct oracle against a brand-new interpreter with an empty cache directory, also with the kernel\'s own '
         'time stamps (stream wallclock); streams nsportion (oracle: portions of a namespace package over several '
         'sys.path entries created / filled / removed between Scripts vs a fresh process), nspath (py__path__ and the '
         'whole lookup vs the model), nsfinder (the model\'s finder cache vs raw importlib, filtered and unfiltered '
         'candidates).',
    note='Modelled not verified: parso parse/diff parser, pickle round trip, importlib finders in the helper '
         '(parameter `find` = function of the current file system; the FileFinder directory cache is exercised by '
         'stream `finder`, not modelled), the file system\'s time-stamp granularity (logical millisecond clock via '
         'os.utime(ns=); ext4 keeps 1 ns, checked at start).',
    technique='Lean 4 proof over hand-written model + translator-extracted decisions + probed differential '
              'correspondence + fresh-process oracle',
    design='5.C09')

# one scratch area per checkout of the framework: concurrent checks from different worktrees do not
# remove each other's projects
SCRATCH = '/tmp/scratch-c08c09/c09-' + hashlib.sha1(common.VERIF.encode()).hexdigest()[:8]
BASE = 1600000000      # logical clock origin (2020): far below the wall clock
BASE_MS = BASE * 1000  # the logical clock counts milliseconds; a whole second, so that truncation commutes
SPACINGS = ('sec', 'subsec', 'mixed')


# ======================================================================= project content

def content(rel, version):
    """version `version` of the file `rel`: distinctive names, `shared` on a version-dependent line"""
    tag = rel.replace('/', '_').replace('.', '_')
    lines = ['# %s v%d' % (rel, version)] + ['# pad'] * (version % 3)
    lines += ['shared = %d' % version, 'v%d_%s = 1' % (version, tag), 'def f%d(x):' % version, '    return x']
    if rel.endswith('.pyi'):
        lines = ['shared: int', 'v%d_%s: int' % (version, tag), 'def f%d(x: int) -> int: ...' % version]
    if rel == 'pkg/spk/__init__.py':
        lines.append('init_only = 1')
    elif rel.endswith('__init__.py'):
        lines.append('from . import sub' if version % 2 else 'init_only = 1')
    return '\n'.join(lines) + '\n'


QUERIES = [
    # (label, relative path of the buffer, source, [(method, line, col)])
    ('import', 'main.py', 'import mod\nmod.', [('complete', 2, 4)]),
    ('from', 'main.py', 'from mod import shared\nshared', [('infer', 2, 3), ('goto', 2, 3)]),
    ('star', 'main.py', 'from mod import *\nv', [('complete', 2, 1)]),
    ('relative', 'pkg/inner.py', 'from . import sib\nsib.', [('complete', 2, 4)]),
    ('relative-from', 'pkg/inner.py', 'from .sib import shared\nshared', [('goto', 2, 3)]),
    ('dotted', 'main.py', 'import pkg.sub\npkg.sub.', [('complete', 2, 8)]),
    # the sub-module pkg.spk (module / package / namespace / stub-only) and its stub
    ('sub-dotted', 'main.py', 'import pkg.spk\npkg.spk.', [('complete', 2, 8)]),
    ('sub-from', 'main.py', 'from pkg.spk import shared\nshared',
     [('goto', 2, 3, {'follow_imports': True, 'prefer_stubs': True}), ('goto', 2, 3, {'only_stubs': True})]),
    ('sub-star', 'main.py', 'from pkg.spk import *\nv', [('complete', 2, 1)]),
    ('sub-relative', 'pkg/inner.py', 'from . import spk\nspk.', [('complete', 2, 4)]),
]
STUB_QUERIES = ('sub-dotted', 'sub-from', 'sub-star', 'sub-relative')
STUB_CANDIDATES = ('pkg/spk.pyi', 'pkg/spk/__init__.pyi')


def stub_query(files, dirs):
    """the arguments of typeshed._try_to_load_stub for ('pkg', 'spk') on the present files, as the model's
    StubQuery (os.path arithmetic done here)"""
    if 'pkg/spk/__init__.py' in files:              # importlib: package > module > namespace portion
        direct, absent = ['pkg/spk/__init__.pyi'], False
    elif 'pkg/spk.py' in files:
        direct, absent = ['pkg/spk.pyi'], False
    elif 'pkg/spk' in dirs:
        direct, absent = ['pkg/spk/__init__.pyi'], False
    else:
        direct, absent = [], True
    return {'t': 'stub', 'dir': 'pkg', 'direct': direct, 'useListing': 'pkg/__init__.py' in files,
            'pkgStub': 'pkg/spk/__init__.pyi', 'modStub': 'pkg/spk.pyi', 'pyAbsent': absent}


# ======================================================================= inside observer processes

def _observe(proj, cache_dir, probe=True, labels=None):
    """runs all queries (a new Script each) against the files as they are; returns answers and the
    probed trace of loads of project files"""
    import jedi
    import parso
    import parso.grammar
    from parso.cache import parser_cache
    from pathlib import Path
    jedi.settings.cache_directory = Path(cache_dir)
    trace = []
    if probe and not getattr(parso.grammar, '_c09_probed', False):
        orig_load = parso.grammar.load_module
        orig_save = parso.grammar.try_to_save_module
        state = {'trace': None}

        def p_load(hashed, file_io, cache_path=None):
            had = file_io.path in parser_cache.get(hashed, {})
            node = orig_load(hashed, file_io, cache_path=cache_path)
            if state['trace'] is not None:
                state['trace'].append(['load', str(file_io.path), ('memory' if had else 'pickle') if node is not None
                                       else 'fall', node.get_code() if node is not None else None, had])
            return node

        def p_save(hashed, file_io, module, lines, pickling=True, cache_path=None):
            if state['trace'] is not None and file_io.path is not None:
                state['trace'].append(['save', str(file_io.path), ''.join(lines), pickling])
            return orig_save(hashed, file_io, module, lines, pickling=pickling, cache_path=cache_path)

        parso.grammar.load_module = p_load
        parso.grammar.try_to_save_module = p_save
        parso.grammar._c09_probed = state
    state = getattr(parso.grammar, '_c09_probed', None)
    answers = {}
    for label, rel, src, qs in QUERIES:
        if labels is not None and label not in labels:
            continue
        if state:
            state['trace'] = []
        out = []
        script = jedi.Script(src, path=os.path.join(proj, rel))
        for q in qs:
            meth, line, col = q[:3]
            try:
                res = getattr(script, meth)(line, col, **(q[3] if len(q) > 3 else {}))
                if meth == 'complete':
                    out.append(sorted(c.name for c in res if not c.name.startswith('__')))
                else:
                    out.append(sorted([d.name, d.line, d.type, d.module_name,
                                       os.path.relpath(str(d.module_path), proj) if d.module_path else None]
                                      for d in res))
            except Exception as e:
                out.append(['EXC', type(e).__name__])
        answers[label] = out
        if state:
            # loads of project files only, in order; a 'fall' is resolved by what follows it
            for ev in state['trace']:
                if ev[1].startswith(proj + os.sep) and not ev[1].endswith(('main.py', 'inner.py')):
                    trace.append([label] + ev)
            state['trace'] = None
    return {'answers': answers, 'trace': trace}


def observe_once(item):
    """entry point for brand-new interpreters: truth (empty cache dir) and 'warm' observers"""
    return _observe(item['proj'], item['cache'], probe=item.get('probe', False), labels=item.get('labels'))


# ----------------------------------------------------------------------- scenario runner

class Clock:
    """logical time in milliseconds.  `spacing` decides how far apart two events are; the draws depend on
    (spacing, seed) only, so a replay gets the same stamps"""
    STEPS = {'sec': [10000], 'subsec': [1, 2, 3, 5, 8, 13], 'mixed': [1, 3, 7, 40, 300, 900, 1100, 2500, 10000]}

    def __init__(self, spacing='sec', seed=0):
        self.spacing = spacing
        self.rng = random.Random('c09-clock-%s-%s' % (spacing, seed))
        # where in its second the history starts
        self.offset = 0 if spacing == 'sec' else self.rng.randrange(0, 400)
        self.now = BASE_MS + self.offset

    def tick(self):
        dt = self.rng.choice(self.STEPS[self.spacing])
        self.now += dt
        return dt


def _stamp(path, t_ms):
    ns = t_ms * 10 ** 6
    os.utime(path, ns=(ns, ns))


def _restamp_pickles(cache_dir, clock, known):
    """pickle files jedi has just written get the logical time of the observation"""
    stamped = {}
    for root, _, files in os.walk(cache_dir):
        for f in files:
            if f.endswith('.pkl'):
                pth = os.path.join(root, f)
                st = os.stat(pth)
                if st.st_mtime > BASE + 10 ** 8:       # a wall-clock stamp: new or rewritten
                    _stamp(pth, clock.now)
                    known[pth] = clock.now
    return stamped


def apply_op(proj, op, clock, mtimes):
    """executes one file-system mutation; returns the model ops (list) describing it"""
    kind = op['op']
    model = []

    def full(rel):
        return os.path.join(proj, rel)

    def touch_dir(rel):
        d = os.path.dirname(full(rel))
        _stamp(d, clock.now)           # a new directory mtime for every mutation (finder listing)

    if kind == 'write':
        rel, ver, policy = op['rel'], op['version'], op.get('policy', 'fresh')
        os.makedirs(os.path.dirname(full(rel)), exist_ok=True)
        dt = clock.tick()
        if policy == 'fresh' or rel not in mtimes:
            m = clock.now
        elif policy == 'same':
            m = mtimes[rel]
        else:                           # 'between': strictly newer, but older than any pickle written since
            m = mtimes[rel] + 1
        if os.path.exists(full(rel)):
            # an editor saving in place: the directory is not touched and keeps its (older) mtime - the name
            # is already in every listing; the only thing that changes besides the bytes is the file's mtime
            with open(full(rel), 'w') as f:
                f.write(content(rel, ver))
            _stamp(full(rel), m)
        else:
            tmp = full(rel) + '.tmp'
            with open(tmp, 'w') as f:
                f.write(content(rel, ver))
            os.replace(tmp, full(rel))
            _stamp(full(rel), m)
            touch_dir(rel)
        mtimes[rel] = m
        model.append({'t': 'tick', 'dt': dt})
        model.append({'t': 'write', 'p': rel, 'b': op['bytes_id'], 'm': m - BASE_MS})
    elif kind == 'delete':
        rel = op['rel']
        dt = clock.tick()
        if os.path.exists(full(rel)):
            os.remove(full(rel))
        mtimes.pop(rel, None)
        touch_dir(rel)
        model.append({'t': 'tick', 'dt': dt})
        model.append({'t': 'delete', 'p': rel})
    elif kind == 'rename':
        src, dst, policy = op['src'], op['dst'], op.get('policy', 'fresh')
        dt = clock.tick()
        model.append({'t': 'tick', 'dt': dt})
        if os.path.exists(full(src)):
            os.makedirs(os.path.dirname(full(dst)), exist_ok=True)
            os.replace(full(src), full(dst))
            m = mtimes.pop(src)
            if policy == 'fresh':       # mv + touch
                m = clock.now
                _stamp(full(dst), m)
                # model: a rename that keeps the stamp, then a rewrite of the same bytes cannot
                # express "new stamp": use delete + write
                model.append({'t': 'delete', 'p': src})
                model.append({'t': 'write', 'p': dst, 'b': op['bytes_id'], 'm': m - BASE_MS})
            else:
                model.append({'t': 'rename', 's': src, 'd': dst})
            mtimes[dst] = m
            touch_dir(src)
            touch_dir(dst)
    elif kind == 'rmdir':
        rel = op['rel']
        dt = clock.tick()
        shutil.rmtree(full(rel), ignore_errors=True)
        for k in [k for k in mtimes if k.startswith(rel + '/')]:
            mtimes.pop(k)
            model.append({'t': 'delete', 'p': k})
        _stamp(os.path.dirname(full(rel)), clock.now)
        model.insert(0, {'t': 'tick', 'dt': dt})
    return model


def run_scenario(item):
    """one scenario in this process; item = {sid, observer, spacing, clock_seed, steps: [[ops...], ...]}"""
    import subprocess
    if item.get('kind') == 'wallclock':
        return wallclock_probe(item)
    if item.get('kind') in ('nsportion', 'nsfinder'):
        return run_ns_scenario(item)
    root = os.path.join(SCRATCH, item['sid'])
    shutil.rmtree(root, ignore_errors=True)
    proj = os.path.join(root, 'proj')
    cache = os.path.join(root, 'cache')
    os.makedirs(proj)
    os.makedirs(cache)
    os.makedirs(os.path.join(proj, 'pkg'))
    os.chdir(proj)
    clock = Clock(item.get('spacing', 'sec'), item.get('clock_seed', 0))
    mtimes = {}
    pickles = {}
    out = []
    t_start = time.time()
    env = dict(os.environ)
    env['PYTHONPATH'] = os.pathsep.join([common.REPO, os.path.join(common.VERIF, 'harness'), common.VERIF])

    def spawn(cache_dir, probe, tag):
        inp = os.path.join(root, 'in-%s.json' % tag)
        outp = os.path.join(root, 'out-%s.json' % tag)
        with open(inp, 'w') as f:
            json.dump([{'proj': proj, 'cache': cache_dir, 'probe': probe}], f)
        p = subprocess.Popen([sys.executable, os.path.join(common.VERIF, 'harness', 'worker.py'),
                              'props.c09', 'observe_once', inp, outp], env=env, cwd=proj,
                             stdout=subprocess.DEVNULL, stderr=subprocess.PIPE, text=True)
        return p, outp

    def collect(p, outp):
        _, err = p.communicate(timeout=600)
        if p.returncode != 0:
            raise RuntimeError('observer failed: ' + (err or '')[-1500:])
        with open(outp) as f:
            return json.load(f)[0]

    for si, ops in enumerate(item['steps']):
        model_ops = []
        if si == 0 and clock.offset:
            model_ops.append({'t': 'tick', 'dt': clock.offset})
        for op in ops:
            model_ops += apply_op(proj, op, clock, mtimes)
        model_ops.append({'t': 'tick', 'dt': clock.tick()})
        # ground truth: a brand-new interpreter with an empty cache directory
        empty = os.path.join(root, 'empty-%d' % si)
        os.makedirs(empty)
        tp = spawn(empty, False, 'truth%d' % si)
        if item['observer'] == 'same':
            obs = _observe(proj, cache, probe=True)
        else:
            wp = spawn(cache, True, 'warm%d' % si)
            obs = collect(*wp)
            model_ops.append({'t': 'newProcess'})
        truth = collect(*tp)
        shutil.rmtree(empty, ignore_errors=True)
        _restamp_pickles(cache, clock, pickles)
        files = {}
        for rel in sorted(mtimes):
            with open(os.path.join(proj, rel)) as f:
                files[rel] = f.read()
        dirs = sorted(os.path.relpath(os.path.join(r, d), proj) for r, ds, _ in os.walk(proj) for d in ds)
        out.append({'answers': obs['answers'], 'truth': truth['answers'], 'trace': obs['trace'],
                    'model_ops': model_ops, 'files': files, 'mtimes': dict(mtimes), 'dirs': dirs})
    shutil.rmtree(root, ignore_errors=True)
    return {'sid': item['sid'], 'steps': out, 'secs': round(time.time() - t_start, 1)}


def same_second(st):
    """do all file stamps of this step lie within one whole second (where a coarse stamp cannot tell them apart)?"""
    return len({m // 1000 for m in st['mtimes'].values()}) <= 1


# ======================================================================= generation (parent)

MODFILES = ['mod.py', 'pkg/sib.py', 'pkg/sub.py', 'pkg/__init__.py']


def gen_scenario(rng, sid, observer, policy, spacing='sec'):
    """policy: 'fresh' (MonotoneWrites + newer than every pickle) or an adversarial one; spacing: see Clock"""
    version = {'n': 0}
    bytes_ids = {}

    def bid(rel, ver):
        return bytes_ids.setdefault(content(rel, ver), len(bytes_ids) + 1)

    def w(rel, pol='fresh'):
        version['n'] += 1
        return {'op': 'write', 'rel': rel, 'version': version['n'], 'policy': pol,
                'bytes_id': bid(rel, version['n'])}

    steps = [[w(r) for r in MODFILES]]
    present = {r: steps[0][i]['version'] for i, r in enumerate(MODFILES)}
    # the sub-module pkg.spk: package (mostly), module, or absent at the start
    r0 = rng.random()
    for rel in (['pkg/spk/__init__.py'] if r0 < 0.6 else ['pkg/spk.py'] if r0 < 0.85 else []):
        o = w(rel)
        steps[0].append(o)
        present[rel] = o['version']
    nsteps = rng.randint(2, 3)
    for _ in range(nsteps):
        r = rng.random()
        ops = []
        if r < 0.3:
            ops = spk_mutation(rng, present, w, policy)
        elif r < 0.55:
            rel = rng.choice([x for x in present if not x.endswith('.pyi')] or ['mod.py'])
            pol = policy if rng.random() < 0.8 else 'fresh'
            o = w(rel, pol)
            if rng.random() < 0.25 and rel in present:      # overwrite with the very same bytes
                o['version'] = present[rel]
                o['bytes_id'] = bid(rel, present[rel])
            present[rel] = o['version']
            ops.append(o)
        elif r < 0.62 and 'mod.py' in present:
            ops.append({'op': 'delete', 'rel': 'mod.py'})
            present.pop('mod.py')
        elif r < 0.74:
            # an older sibling moved over the module (mv keeps the mtime)
            tmp = 'spare.py'
            if 'mod.py' in present:
                # the spare file was written BEFORE the current mod.py only in adversarial runs
                o = w(tmp)
                pol = 'keep' if policy != 'fresh' else 'fresh'
                if pol == 'keep':
                    # make it older: write spare first, then refresh mod.py, observe, then move
                    o2 = w('mod.py')
                    present['mod.py'] = o2['version']
                    steps.append([o, o2])
                    ops.append({'op': 'rename', 'src': tmp, 'dst': 'mod.py', 'policy': 'keep',
                                'bytes_id': o['bytes_id']})
                    # spare.py holds the content of version o['version'] under another tag: the
                    # served names are what matters, recorded through `files`
                else:
                    ops.append(o)
                    ops.append({'op': 'rename', 'src': tmp, 'dst': 'mod.py', 'policy': 'fresh',
                                'bytes_id': o['bytes_id']})
                present['mod.py'] = o['version']
            else:
                o = w('mod.py')
                present['mod.py'] = o['version']
                ops.append(o)
        elif r < 0.84:
            # module <-> package
            if 'mod.py' in present:
                ops.append({'op': 'delete', 'rel': 'mod.py'})
                present.pop('mod.py')
                o = w('mod/__init__.py')
                present['mod/__init__.py'] = o['version']
                ops.append(o)
            elif 'mod/__init__.py' in present:
                ops.append({'op': 'rmdir', 'rel': 'mod'})
                present.pop('mod/__init__.py')
                o = w('mod.py')
                present['mod.py'] = o['version']
                ops.append(o)
            else:
                o = w('mod.py')
                present['mod.py'] = o['version']
                ops.append(o)
        elif r < 0.92:
            # remove / add pkg/__init__.py (regular package <-> namespace package)
            if 'pkg/__init__.py' in present:
                ops.append({'op': 'delete', 'rel': 'pkg/__init__.py'})
                present.pop('pkg/__init__.py')
            else:
                o = w('pkg/__init__.py')
                present['pkg/__init__.py'] = o['version']
                ops.append(o)
        else:
            # a stub next to the module, or its removal
            if 'mod.pyi' in present:
                ops.append({'op': 'delete', 'rel': 'mod.pyi'})
                present.pop('mod.pyi')
            else:
                o = w('mod.pyi')
                present['mod.pyi'] = o['version']
                ops.append(o)
        if ops:
            steps.append(ops)
    return {'sid': sid, 'observer': observer, 'policy': policy, 'spacing': spacing,
            'clock_seed': rng.randrange(10 ** 6), 'steps': steps}


SPK_PKG, SPK_MOD, SPK_SIB, SPK_INIT = 'pkg/spk/__init__.py', 'pkg/spk.py', 'pkg/spk.pyi', 'pkg/spk/__init__.pyi'


def spk_mutation(rng, present, w, policy):
    """one mutation of the sub-module pkg.spk or of its stub.  Never both stub forms at once (the key
    `spk` of _create_stub_map would then depend on the os.listdir order) and never module and package
    at once."""
    def put(rel, pol='fresh'):
        o = w(rel, pol)
        present[rel] = o['version']
        return o

    def drop(rel):
        present.pop(rel)
        return {'op': 'delete', 'rel': rel}

    stub = SPK_SIB if SPK_SIB in present else SPK_INIT if SPK_INIT in present else None
    py = SPK_PKG if SPK_PKG in present else SPK_MOD if SPK_MOD in present else None
    moves = []
    if stub is None:
        moves += ['add-sibling', 'add-sibling', 'add-init']
    else:
        moves += ['remove-stub', 'overwrite-stub', 'move-stub']
    if py is None:
        moves += ['add-package', 'add-module']
    else:
        moves += ['flip-py', 'remove-py']
    m = rng.choice(moves)
    pol = policy if rng.random() < 0.5 else 'fresh'
    if m == 'add-sibling':
        return [put(SPK_SIB)]
    if m == 'add-init':
        return [put(SPK_INIT)]
    if m == 'remove-stub':
        return [drop(stub)]
    if m == 'overwrite-stub':
        return [put(stub, pol)]
    if m == 'move-stub':                      # the other stub form takes over
        return [drop(stub), put(SPK_INIT if stub == SPK_SIB else SPK_SIB)]
    if m == 'add-package':
        return [put(SPK_PKG)]
    if m == 'add-module':
        return [put(SPK_MOD)]
    if m == 'flip-py':                        # module <-> package, the stub stays where it is
        return [drop(py), put(SPK_MOD if py == SPK_PKG else SPK_PKG)]
    return [drop(py)]                         # remove-py: stub-only module / package / namespace dir


# ======================================================================= comparison

def model_request(sc, res):
    """file-system ops + the probed loads, in order; every Script that imports pkg.spk contributes one
    `stub` op (in the place of the first stub file it loaded, or after its loads when it loaded none).
    Returns the request, the compared events [(step, kind, record, index of the op)] and the bytes id on
    disk per step and path"""
    steps = []
    events = []
    fs = {}
    cur_ids = []
    proj = os.path.join(SCRATCH, sc['sid'], 'proj')
    for si, st in enumerate(res['steps']):
        for s in st['model_ops']:
            steps.append(s)
            if s['t'] == 'write':
                fs[s['p']] = s['b']
            elif s['t'] == 'delete':
                fs.pop(s['p'], None)
            elif s['t'] == 'rename' and s['s'] in fs:
                fs[s['d']] = fs.pop(s['s'])
        cur_ids.append(dict(fs))
        loads = _loads(st['trace'])
        sq = stub_query(st['files'], st.get('dirs', []))
        for label, _, _, _ in QUERIES:
            mine = [l for l in loads if l['label'] == label]
            stubbed = label not in STUB_QUERIES
            for l in mine:
                rel = os.path.relpath(l['path'], proj)
                if not stubbed and rel in STUB_CANDIDATES:
                    stubbed = True
                    events.append((si, 'stub', dict(l, rel=rel), len(steps)))
                    steps.append(dict(sq))
                else:
                    events.append((si, 'load', dict(l, rel=rel), len(steps)))
                    steps.append({'t': 'load', 'p': rel})
            if not stubbed:
                events.append((si, 'stub', {'label': label, 'rel': None, 'layer': None, 'code': None}, len(steps)))
                steps.append(dict(sq))
    return {'op': 'history', 'steps': steps}, events, cur_ids


def _loads(trace):
    """groups probe events into loads: [{label, rel, layer, code}]"""
    out = []
    i = 0
    while i < len(trace):
        label, ev, path, a, b = trace[i][0], trace[i][1], trace[i][2], trace[i][3], trace[i][4]
        if ev == 'load':
            rec = {'label': label, 'path': path, 'layer': a, 'code': b, 'had_mem': trace[i][5]}
            if a == 'fall':
                # followed by a save of the same path (parse / diff-parse) or nothing (same lines)
                if i + 1 < len(trace) and trace[i + 1][1] == 'save' and trace[i + 1][2] == path:
                    rec['layer'] = 'diff-parse' if rec['had_mem'] else 'parse'
                    rec['code'] = trace[i + 1][3]
                    i += 1
                else:
                    rec['layer'] = 'same-lines'     # `old_lines == lines`: the lines just read
                    rec['code'] = 'SAME-LINES'
            out.append(rec)
        i += 1
    return out


def effective_policy(sc, si):
    """the adversarial policy of a scenario only counts from the first step that really used it, and
    'between' (strictly newer than the cached version, older than its pickle file) only for an observer that
    reads pickles: a process that holds the tree in memory must notice a strictly newer mtime"""
    used = {op.get('policy') for ops in sc['steps'][:si + 1] for op in ops} - {None, 'fresh'}
    if sc['observer'] != 'warm':
        used.discard('between')
    for pol in (sc['policy'], 'keep', 'same', 'between'):      # generated scenarios mix their policy with 'keep'
        if pol in used:
            return pol
    return 'fresh'


def classify(policy, layer, spacing='sec'):
    """the shape of a stale answer: the adversarial stamp policies are the known findings; with 'fresh' stamps
    (every change strictly newer, at the file system's resolution, than every stamp any layer holds) there is
    no excuse, whatever the spacing"""
    fresh = 'stale' if spacing == 'sec' else 'stale-fresh-stamps-%s-spacing' % spacing
    return {'same': 'stale-same-mtime', 'between': 'stale-older-than-pickle',
            'keep': 'stale-after-rename'}.get(policy, fresh) + ('/' + layer if layer else '')


def run(ctx):
    shutil.rmtree(SCRATCH, ignore_errors=True)
    os.makedirs(SCRATCH, exist_ok=True)
    try:
        _run(ctx)
    finally:
        shutil.rmtree(SCRATCH, ignore_errors=True)


def _run(ctx):
    from props.c08 import pmap
    rng = ctx.subrng('scenarios')
    n = ctx.size(6, 300)      # + 3 witnesses, 3 layouts, 2 sub-second, corpus, 2 wallclock workers
    scs = []
    _check_fs_resolution()
    for i in range(n):
        observer = 'warm' if i % 3 == 1 else 'same'
        policy = ['fresh', 'fresh', 'fresh', 'same', 'between', 'keep'][i % 6] if i >= 2 else 'fresh'
        # edit spacing: the adversarial policies are defined on the 10 s clock; fresh stamps at every spacing
        spacing = 'sec' if policy != 'fresh' else SPACINGS[(i + ctx.seed) % 3] if i < 3 else rng.choice(SPACINGS)
        scs.append(gen_scenario(rng, 's%d-%d' % (ctx.seed, i), observer, policy, spacing))
    # deterministic witnesses of Props/C09 (the known findings print every run)
    scs += witness_scenarios(ctx.seed)
    # stub layouts of the sub-module pkg.spk, stubs added / moved / removed after pkg was queried
    scs += layout_scenarios(ctx.seed)
    # every kind of imported file overwritten within the second it was cached / pickled in
    scs += subsecond_scenarios(ctx.seed)
    # minimised past misses (corpus/C09/*.json: one scenario each)
    scs += corpus_scenarios()
    # the kernel's own stamps
    wall = wallclock_items(ctx.seed)
    # pkgutil-style namespace packages over several sys.path entries: portions created / removed between Scripts
    nss = ns_scenarios(ctx)
    # the same histories through raw importlib, candidates filtered by isdir (as py__path__ does) and unfiltered
    nsf = [dict(sc, kind='nsfinder', sid='%s-%s' % (sc['sid'].replace('ns-', 'nsf-'), 'f' if filt else 'u'), filter=filt)
           for sc in nss[:ctx.size(3, 20)] for filt in (True, False)]
    extra = wall + nss + nsf
    t0 = time.time()
    results = [r[0] for r in pmap('run_scenario', [[s] for s in scs + extra], jobs=max(14, len(scs) + len(extra))
                                  if ctx.quick else 14, module='props.c09')]
    wall_results = results[len(scs):len(scs) + len(wall)]
    ns_results = results[len(scs) + len(wall):len(scs) + len(wall) + len(nss)]
    nsf_results = results[len(scs) + len(wall) + len(nss):]
    results = results[:len(scs)]
    common.log('[c09] scenarios: %.1fs (%s)' % (time.time() - t0, ' '.join(
        '%s:%d steps:%ss' % (r['sid'], len(r['steps']), r.get('secs')) for r in results)))
    reqs, loadlists, curids = [], [], []
    for sc, res in zip(scs, results):
        rq, loads, cur = model_request(sc, res)
        reqs.append(rq)
        loadlists.append(loads)
        curids.append(cur)
    ns_reqs = [ns_model_request(sc, r)[0] for sc, r in zip(nss, ns_results)] + [r['request'] for r in nsf_results]
    answers = common.run_driver('C09', reqs + ns_reqs) if ctx.model_ok else [None] * len(reqs + ns_reqs)
    ns_answers = answers[len(reqs):len(reqs) + len(nss)]
    nsf_answers = answers[len(reqs) + len(nss):]
    answers = answers[:len(reqs)]
    for sc, res, rq, loads, ans, cur_ids in zip(scs, results, reqs, loadlists, answers, curids):
        proj = os.path.join(SCRATCH, sc['sid'], 'proj')
        # ---- layers: model vs probes
        stale_loads = {}
        if ans is not None:
            if isinstance(ans, dict):
                raise common.InfraError('driver error: %r' % ans)
            for si, kind, l, idx in loads:
                m = ans[idx]
                st = res['steps'][si]
                rel = l['rel']
                if kind == 'stub':
                    # which stub file this Script serves for pkg.spk, from which layer, which version
                    cur = st['files'].get(rel) if rel else None
                    served_current = rel is None or l['code'] == cur or l['code'] == 'SAME-LINES'
                    layout = '%s+%s' % (
                        'pkg' if SPK_PKG in st['files'] else 'mod' if SPK_MOD in st['files'] else
                        'ns' if 'pkg/spk' in st.get('dirs', []) else 'absent',
                        'sibling' if SPK_SIB in st['files'] else 'init' if SPK_INIT in st['files'] else 'nostub')
                    ctx.count('stubs', (sc['sid'], si, l['label']), nontrivial=rel is not None,
                              bucket='%s/%s/%s' % (sc['observer'], layout, l['layer']),
                              sample={'observer': sc['observer'], 'layout': layout, 'stub': rel, 'layer': l['layer'],
                                      'query': rq['steps'][idx]})
                    mcur = m.get('path') is None or m.get('val') == cur_ids[si].get(m.get('path'))
                    if (m.get('path') != rel or (rel is not None and l['layer'] != m.get('layer'))
                            or served_current != mcur):
                        ctx.tie_broken('correspondence:stubs',
                                       short({'sid': sc['sid'], 'step': si, 'query': l['label'], 'layout': layout,
                                              'real': [rel, l['layer'], served_current],
                                              'model': [m.get('path'), m.get('layer'), mcur, m.get('memo')],
                                              'stub_query': rq['steps'][idx],
                                              'observer': sc['observer'], 'policy': sc['policy']}, 900))
                    if not served_current:
                        stale_loads.setdefault(si, []).append((rel, l['layer']))
                    continue
                cur = st['files'].get(rel)
                served_current = l['code'] == cur or l['code'] == 'SAME-LINES'
                ctx.count('layers', (sc['sid'], si, rel, l['label'], idx), nontrivial=l['layer'] != 'parse',
                          bucket='%s/%s/%s/%s' % (sc['observer'], sc['policy'], sc.get('spacing', 'sec'), l['layer']),
                          sample={'observer': sc['observer'], 'policy': sc['policy'], 'rel': rel, 'layer': l['layer'],
                                  'spacing': sc.get('spacing', 'sec'), 'served_current': served_current})
                # the model's value is the bytes id of the served version; current id from the last write
                cur_id = cur_ids[si].get(rel)
                model_current = m.get('val') == cur_id
                if l['layer'] != m.get('layer') or served_current != model_current:
                    ctx.tie_broken('correspondence:layers',
                                   short({'sid': sc['sid'], 'step': si, 'rel': rel, 'query': l['label'],
                                          'real': [l['layer'], served_current],
                                          'model': [m.get('layer'), model_current, m.get('val'), cur_id],
                                          'observer': sc['observer'], 'policy': sc['policy'],
                                          'spacing': sc.get('spacing', 'sec')}, 900))
                if not served_current:
                    stale_loads.setdefault(si, []).append((rel, l['layer']))
        # ---- oracle
        for si, st in enumerate(res['steps']):
            for label, _, _, _ in QUERIES:
                a, b = st['answers'][label], st['truth'][label]
                spacing = sc.get('spacing', 'sec')
                ctx.count('oracle', (sc['sid'], si, label), nontrivial=si > 0 and any(a),
                          bucket='%s/%s/%s%s/%s' % (sc['observer'], sc['policy'], spacing,
                                                    '-one-second' if spacing != 'sec' and same_second(st) else '',
                                                    label),
                          sample={'label': label, 'answer': a})
                if a != b:
                    layer = (stale_loads.get(si) or [(None, None)])[0][1]
                    shape = classify(effective_policy(sc, si), None, spacing)
                    ctx.fail('oracle', 'a later Script answers differently from a fresh process with an empty cache '
                                       'on the same files (a definition of an earlier state is reported, or a '
                                       'new one is missed)',
                             {'shape': shape, 'observer': sc['observer'], 'policy': sc['policy'], 'spacing': spacing,
                              'scenario': {'observer': sc['observer'], 'policy': sc['policy'], 'spacing': spacing,
                                           'clock_seed': sc.get('clock_seed', 0),
                                           'steps': sc['steps'][:si + 1]}, 'step': si,
                              'mtimes_ms': {k: v - BASE_MS for k, v in st['mtimes'].items()},
                              'query': label, 'stale_layer': layer},
                             expected=b, observed=a, how='./check C09 --replay <this file>')
    wallclock_stream(ctx, wall, wall_results)
    ns_streams(ctx, nss, ns_results, ns_answers)
    nsfinder_stream(ctx, nsf, nsf_results, nsf_answers)
    finder_stream(ctx)
    ctx.obligations['assumptions'] = [
        '`parse` is a parameter (parso parse == diff parse); the pickle round trip returns the pickled item',
        'the import finder is a function of the current file system (importlib in the helper): exercised by '
        'module<->package / __init__ / stub mutations with a new directory mtime per mutation; with an unchanged '
        'directory mtime it is false (stream finder, known finding)',
        'time stamps: logical clock (milliseconds) through os.utime(ns=) on files, directories and pickle files, at '
        'spacings from 1 ms to 10 s; the file system keeps them exactly (checked: st_mtime_ns round trip and '
        'distinct floats 1 ms apart); the kernel\'s own stamps only in stream wallclock',
        'which time a FileIO reports: every get_last_modified in jedi/file_io.py and parso/file_io.py is recognised '
        'by the translator (Gen.C09.cfg.stampIsFsMtime); FileIO objects built elsewhere are not looked at',
        'stub lookup: the python module kind of pkg.spk (package > module > namespace directory > absent) and the '
        'os.path arithmetic of the candidates are computed by the harness from the files present; step 1 '
        '(`<name>-stubs` directories) and typeshed (empty in this sandbox) are not modelled; when both '
        '`pkg/spk.pyi` and `pkg/spk/__init__.pyi` exist the real choice follows os.listdir order (never generated)',
    ]


def witness_scenarios(seed):
    def w(rel, ver, bid, pol='fresh'):
        return {'op': 'write', 'rel': rel, 'version': ver, 'policy': pol, 'bytes_id': bid}
    base = [w(r, i + 1, i + 1) for i, r in enumerate(MODFILES)]
    return [
        {'sid': 'w-same-%d' % seed, 'observer': 'same', 'policy': 'same',
         'steps': [base, [w('mod.py', 7, 7, 'same')]]},
        {'sid': 'w-between-%d' % seed, 'observer': 'warm', 'policy': 'between',
         'steps': [base, [w('mod.py', 8, 8, 'between')]]},
        {'sid': 'w-rename-%d' % seed, 'observer': 'same', 'policy': 'keep',
         'steps': [[w('spare.py', 9, 9)] + base, [{'op': 'rename', 'src': 'spare.py', 'dst': 'mod.py',
                                                    'policy': 'keep', 'bytes_id': 9}]]},
    ]


def layout_scenarios(seed):
    """fresh stamps only (the property must hold): every stub layout of a sub-module is reached by a
    mutation made AFTER the package was queried by the same process"""
    n = {'v': 20}

    def w(rel):
        n['v'] += 1
        return {'op': 'write', 'rel': rel, 'version': n['v'], 'policy': 'fresh', 'bytes_id': n['v']}

    def d(rel):
        return {'op': 'delete', 'rel': rel}
    base = [w(r) for r in MODFILES]
    # A: a stub next to a sub-PACKAGE: added, replaced by the __init__.pyi form, removed
    a = [base + [w(SPK_PKG)], [w(SPK_SIB)], [d(SPK_SIB), w(SPK_INIT)], [d(SPK_INIT)]]
    # B: module + stub, then the module is turned into a package (the stub stays next to it), then the
    #    python package goes away (stub-only module next to a namespace directory)
    b = [base + [w(SPK_MOD)], [w(SPK_SIB)], [d(SPK_MOD), w(SPK_PKG)], [d(SPK_PKG)]]
    # C: nothing -> stub-only package -> python package with the stub moved next to it -> directory gone
    c = [base, [w(SPK_INIT)], [w(SPK_PKG), d(SPK_INIT), w(SPK_SIB)], [{'op': 'rmdir', 'rel': 'pkg/spk'}]]
    out = [
        {'sid': 'l-pkgstub-%d' % seed, 'observer': 'same', 'policy': 'fresh', 'steps': a},
        {'sid': 'l-modpkg-%d' % seed, 'observer': 'same', 'policy': 'fresh', 'steps': b},
        {'sid': 'l-stubonly-%d' % seed, 'observer': ['same', 'warm'][seed % 2], 'policy': 'fresh', 'steps': c},
    ]
    return out


def subsecond_scenarios(seed):
    """fresh stamps, everything within one second: every kind of file a Script reads through an import - top-level
    module, sub-modules of a package (relative / dotted), the package's __init__, a sub-module with its sibling
    stub - is looked at and then overwritten a few milliseconds later (other size / same size: `content` pads by
    version % 3), in one long-lived process and across processes sharing the pickle directory"""
    n = {'v': 40}
    last = {}

    def w(rel, same_size=False):
        n['v'] += 1
        while (n['v'] % 3 == last.get(rel, n['v'] + 1) % 3) != same_size:
            n['v'] += 1                                             # `content` pads by version % 3
        last[rel] = n['v']
        return {'op': 'write', 'rel': rel, 'version': n['v'], 'policy': 'fresh', 'bytes_id': n['v']}
    out = []
    for observer in ('same', 'warm'):
        last.clear()
        base = [w(r) for r in MODFILES] + [w(SPK_MOD), w(SPK_SIB)]
        steps = [base,
                 [w('mod.py'), w('pkg/sib.py', True), w(SPK_SIB, True)],        # other size / same size
                 [w('pkg/sub.py'), w('pkg/__init__.py'), w(SPK_MOD), w('mod.py', True)]]
        out.append({'sid': 'u-%s-%d' % (observer, seed), 'observer': observer, 'policy': 'fresh',
                    'spacing': 'subsec', 'clock_seed': seed, 'steps': steps})
    return out


def corpus_scenarios():
    import glob
    out = []
    for pth in sorted(glob.glob(os.path.join(common.VERIF, 'corpus', 'C09', '*.json'))):
        with open(pth) as f:
            sc = json.load(f)
        sc['sid'] = 'corpus-' + os.path.splitext(os.path.basename(pth))[0]
        out.append(sc)
    return out


def _check_fs_resolution():
    """the scratch file system must keep millisecond stamps apart (as integers and as the floats parso compares)"""
    os.makedirs(SCRATCH, exist_ok=True)
    pth = os.path.join(SCRATCH, 'resolution-probe')
    with open(pth, 'w') as f:
        f.write('x')
    seen = []
    for t in (BASE_MS + 7, BASE_MS + 8):
        _stamp(pth, t)
        st = os.stat(pth)
        seen.append((st.st_mtime_ns, os.path.getmtime(pth)))
    os.remove(pth)
    if seen[0][0] != (BASE_MS + 7) * 10 ** 6 or seen[1][0] != (BASE_MS + 8) * 10 ** 6 or not seen[0][1] < seen[1][1] \
            or int(seen[0][1]) != int(seen[1][1]):
        raise common.InfraError('scratch file system does not keep millisecond mtimes: %r' % seen)


# ----------------------------------------------------------------------- wallclock stream

WALL_LABELS = ['import', 'from', 'star', 'relative', 'relative-from']


def wallclock_items(seed):
    return [{'kind': 'wallclock', 'sid': 'wall-%s-%d' % (obs, seed), 'observer': obs, 'rounds': 2}
            for obs in ('same', 'warm')]


def _newest_pickle(cache):
    best = 0.0
    for root, _, files in os.walk(cache):
        for f in files:
            if f.endswith('.pkl'):
                best = max(best, os.path.getmtime(os.path.join(root, f)))
    return best


def wallclock_probe(item):
    """no os.utime anywhere: write, look, overwrite as soon as the kernel's stamp reads strictly later than the
    cached version's and than every pickle file's (as floats - what parso compares), look again"""
    import subprocess
    root = os.path.join(SCRATCH, item['sid'])
    shutil.rmtree(root, ignore_errors=True)
    proj = os.path.join(root, 'proj')
    cache = os.path.join(root, 'cache')
    os.makedirs(os.path.join(proj, 'pkg'))
    os.makedirs(cache)
    os.chdir(proj)
    env = dict(os.environ)
    env['PYTHONPATH'] = os.pathsep.join([common.REPO, os.path.join(common.VERIF, 'harness'), common.VERIF])

    def spawn(cache_dir, tag):
        inp = os.path.join(root, 'in-%s.json' % tag)
        outp = os.path.join(root, 'out-%s.json' % tag)
        with open(inp, 'w') as f:
            json.dump([{'proj': proj, 'cache': cache_dir, 'probe': False, 'labels': WALL_LABELS}], f)
        p = subprocess.run([sys.executable, os.path.join(common.VERIF, 'harness', 'worker.py'),
                            'props.c09', 'observe_once', inp, outp], env=env, cwd=proj,
                           stdout=subprocess.DEVNULL, stderr=subprocess.PIPE, text=True, timeout=600)
        if p.returncode != 0:
            raise RuntimeError('observer failed: ' + (p.stderr or '')[-1500:])
        with open(outp) as f:
            return json.load(f)[0]['answers']

    def look():
        if item['observer'] == 'same':
            return _observe(proj, cache, probe=False, labels=WALL_LABELS)['answers']
        return spawn(cache, 'warm')

    def write(rel, ver):
        with open(os.path.join(proj, rel), 'w') as f:
            f.write(content(rel, ver))
    files = ['mod.py', 'pkg/sib.py', 'pkg/__init__.py']
    write('pkg/__init__.py', 2)
    write('pkg/sub.py', 1)
    if item['observer'] == 'same':
        look()                                      # starts the helper: later looks take milliseconds
    rounds = []
    ver = 10
    for r in range(item['rounds']):
        ver += 4
        while time.time() % 1 > 0.2:                # leave most of a second for look + overwrite
            time.sleep(0.005)
        for rel in files:
            write(rel, ver)
        first = look()
        before = {rel: os.path.getmtime(os.path.join(proj, rel)) for rel in files}
        floor = _newest_pickle(cache)
        after = {}
        tries = 0
        for rel in files:
            while True:
                tries += 1
                write(rel, ver + 1 + (r % 2) * 2)      # round 0: other size, round 1: same size
                after[rel] = os.path.getmtime(os.path.join(proj, rel))
                if after[rel] > before[rel] and after[rel] > floor:
                    break
                time.sleep(0.001)
        second = look()
        empty = os.path.join(root, 'empty-%d' % r)
        os.makedirs(empty)
        truth = spawn(empty, 'truth%d' % r)
        rounds.append({'first': first, 'second': second, 'truth': truth, 'tries': tries,
                       'gap_ms': {rel: round((after[rel] - before[rel]) * 1000, 3) for rel in files},
                       'same_second': {rel: int(after[rel]) == int(before[rel]) for rel in files},
                       'over_pickle_ms': round((min(after.values()) - floor) * 1000, 3) if floor else None})
    shutil.rmtree(root, ignore_errors=True)
    return {'sid': item['sid'], 'rounds': rounds}


def wallclock_stream(ctx, items, results):
    for it, res in zip(items, results):
        for ri, r in enumerate(res['rounds']):
            one = all(r['same_second'].values())
            for label in WALL_LABELS:
                ctx.count('wallclock', (it['sid'], ri, label), nontrivial=any(r['second'][label]),
                          bucket='%s/%s' % (it['observer'], 'same-second' if one else 'second-crossed'),
                          sample={'observer': it['observer'], 'round': ri, 'gap_ms': r['gap_ms'],
                                  'over_pickle_ms': r['over_pickle_ms'], 'tries': r['tries']})
                if r['second'][label] != r['truth'][label]:
                    ctx.fail('wallclock', 'a module overwritten right after a Script looked at it (kernel time stamps, '
                                          'strictly later than the cached version and every pickle file) is answered '
                                          'from the earlier version',
                             {'shape': 'stale-wallclock', 'observer': it['observer'], 'query': label, 'round': ri,
                              'gap_ms': r['gap_ms'], 'same_second': r['same_second'], 'item': it},
                             expected=r['truth'][label], observed=r['second'][label],
                             how='./check C09 --replay <this file>  (timing dependent: runs the probe up to 5 times)')


# ----------------------------------------------------------------------- finder stream

def finder_probe(item):
    """the FileFinder directory cache of the long-lived helper (same process, two Scripts)"""
    import jedi
    from pathlib import Path
    root = os.path.join(SCRATCH, item['sid'])
    shutil.rmtree(root, ignore_errors=True)
    proj = os.path.join(root, 'proj')
    os.makedirs(proj)
    os.makedirs(os.path.join(root, 'cache'))
    jedi.settings.cache_directory = Path(os.path.join(root, 'cache'))
    os.chdir(proj)

    def names(src):
        s = jedi.Script(src, path=os.path.join(proj, 'main.py'))
        lines = src.split('\n')
        return sorted(c.name for c in s.complete(len(lines), len(lines[-1])) if not c.name.startswith('__'))
    with open(os.path.join(proj, 'mod_a.py'), 'w') as f:
        f.write('alpha = 1\n')
    st = os.stat(proj)
    first = names('import mod_a\nmod_a.')
    with open(os.path.join(proj, 'mod_b.py'), 'w') as f:
        f.write('beta = 1\n')
    if item['keep_dir_mtime']:
        os.utime(proj, ns=(st.st_atime_ns, st.st_mtime_ns))
    else:
        os.utime(proj, (st.st_mtime + 5, st.st_mtime + 5))
    second = names('import mod_b\nmod_b.')
    shutil.rmtree(root, ignore_errors=True)
    return {'first': first, 'second': second}


def finder_stream(ctx):
    from props.c08 import pmap
    items = [{'sid': 'finder-keep-%d' % ctx.seed, 'keep_dir_mtime': True},
             {'sid': 'finder-change-%d' % ctx.seed, 'keep_dir_mtime': False}]
    res = [r[0] for r in pmap('finder_probe', [[i] for i in items], jobs=2, module='props.c09')]
    for it, r in zip(items, res):
        ctx.count('finder', it['sid'], bucket='dir-mtime-%s' % ('kept' if it['keep_dir_mtime'] else 'changed'),
                  sample={'item': it, 'result': r})
        if r['first'] != ['alpha']:
            raise common.InfraError('finder stream: baseline broken: %r' % r)
        if r['second'] != ['beta']:
            ctx.fail('finder', 'a module created after the helper listed the directory is not found',
                     {'shape': 'finder-dir-mtime-%s' % ('kept' if it['keep_dir_mtime'] else 'changed')},
                     expected=['beta'], observed=r['second'],
                     how='props.c09.finder_probe(%r)' % it)


# ----------------------------------------------------------------------- namespace portions (nsportion / nspath / nsfinder)
#
# pkgutil / pkg_resources style namespace packages (`__path__ = extend_path(__path__, __name__)`,
# `declare_namespace(__name__)`) spread over several sys.path entries (Project(added_sys_path=...)): portions
# `<entry>/nsp/` are CREATED, filled, emptied and removed between Script constructions; every step asks for every
# module name of a pool - also for names that do not exist (yet): such a lookup walks over all candidate
# directories.  What may go stale here is not a parser cache but importlib's path_importer_cache inside the
# long-lived helper: a directory handed to PathFinder while it does not exist gets a negative entry (None) that is
# never revalidated.  Model: Model/NsPath (which directories ModuleValue.py__path__ hands to the finder + the
# finder's cache as a state machine).

NS_PKG = 'nsp'
NS_INIT = {'extend_path': 'from pkgutil import extend_path\n__path__ = extend_path(__path__, __name__)\n',
           'declare_namespace': "__import__('pkg_resources').declare_namespace(__name__)\n"}
NS_MODS = ['ma', 'mb', 'mc']


def ns_content(m, v):
    return '# %s v%d\nshared = %d\nv%d_%s = 1\ndef f%d(x):\n    return x\n' % (m, v, v, v, m, v)


def _ns_roots(root, n):
    return [os.path.join(root, 'r%d' % i) for i in range(n)]


def _observe_ns(roots, cache_dir, with_paths=False):
    """every module name of the pool through `from nsp import m` (completion of `m.`) and `import nsp.m`
    (infer: which file), a new Script and a new Project each"""
    import jedi
    from pathlib import Path
    jedi.settings.cache_directory = Path(cache_dir)
    top = os.path.dirname(roots[0])
    answers = {}

    def rel(p):
        return os.path.relpath(str(p), top) if p else None
    info = {}
    for m in NS_MODS:
        for label, src, meth, line, col in (
                ('ns-from-' + m, 'from %s import %s\n%s.' % (NS_PKG, m, m), 'complete', 2, len(m) + 1),
                ('ns-dotted-' + m, 'import %s.%s\n' % (NS_PKG, m), 'infer', 1, len('import %s.' % NS_PKG) + 1)):
            project = jedi.Project(roots[0], added_sys_path=roots[1:])
            script = jedi.Script(src, path=os.path.join(roots[0], 'main.py'), project=project)
            try:
                res = getattr(script, meth)(line, col)
                if meth == 'complete':
                    answers[label] = sorted(c.name for c in res if not c.name.startswith('__'))
                else:
                    answers[label] = sorted([d.name, d.type, rel(d.module_path)] for d in res)
            except Exception as e:
                answers[label] = ['EXC', type(e).__name__]
    if with_paths:
        # the real ModuleValue.py__path__ of the package and the order of the roots on the sys path
        project = jedi.Project(roots[0], added_sys_path=roots[1:])
        script = jedi.Script('import %s\n' % NS_PKG, path=os.path.join(roots[0], 'main.py'), project=project)
        try:
            sp = [os.path.abspath(x) for x in script._inference_state.get_sys_path()]
            info['sys_path_roots'] = [rel(x) for x in dict.fromkeys(sp) if x in roots]
            vals = [v for d in script.infer(1, len('import ') + 1) for v in d._name.infer()]
            paths = [v.py__path__() for v in vals if hasattr(v, 'py__path__')]
            info['py_path'] = sorted(rel(x) for x in paths[0]) if paths and paths[0] is not None else None
        except Exception as e:
            info['error'] = '%s: %s' % (type(e).__name__, e)
    return {'answers': answers, 'info': info}


def observe_ns_once(item):
    return _observe_ns(item['roots'], item['cache'])


def run_ns_scenario(item):
    """item = {sid, observer, flavor, nroots, steps: [[op...]...]}; ops: mkentry/portion/mod/delmod/rmportion"""
    import subprocess
    if item.get('kind') == 'nsfinder':
        return nsfinder_probe(item)
    root = os.path.join(SCRATCH, item['sid'])
    shutil.rmtree(root, ignore_errors=True)
    os.makedirs(root)
    roots = _ns_roots(root, item['nroots'])
    cache = os.path.join(root, 'cache')
    os.makedirs(cache)
    clock = Clock('sec', 0)
    pickles = {}
    env = dict(os.environ)
    env['PYTHONPATH'] = os.pathsep.join([common.REPO, os.path.join(common.VERIF, 'harness'), common.VERIF])
    t_start = time.time()

    def spawn(cache_dir, tag):
        inp = os.path.join(root, 'in-%s.json' % tag)
        outp = os.path.join(root, 'out-%s.json' % tag)
        with open(inp, 'w') as f:
            json.dump([{'roots': roots, 'cache': cache_dir}], f)
        p = subprocess.Popen([sys.executable, os.path.join(common.VERIF, 'harness', 'worker.py'),
                              'props.c09', 'observe_ns_once', inp, outp], env=env, cwd=root,
                             stdout=subprocess.DEVNULL, stderr=subprocess.PIPE, text=True)
        return p, outp

    def collect(p, outp):
        _, err = p.communicate(timeout=600)
        if p.returncode != 0:
            raise RuntimeError('observer failed: ' + (err or '')[-1500:])
        with open(outp) as f:
            return json.load(f)[0]

    def rel(p):
        return os.path.relpath(p, root)

    def stamp_up(p):
        while len(p) > len(root):
            if os.path.exists(p):
                _stamp(p, clock.now)
            p = os.path.dirname(p)
    out = []
    for si, ops in enumerate(item['steps']):
        model_ops = []
        for op in ops:
            clock.tick()
            r = roots[op['root']]
            pdir = os.path.join(r, NS_PKG)
            if op['op'] == 'mkentry':
                if not os.path.isdir(r):
                    os.makedirs(r)
                    model_ops.append({'t': 'mkdir', 'd': rel(r)})
                if op['root'] == 0:
                    with open(os.path.join(r, 'main.py'), 'w') as f:
                        f.write('')
                stamp_up(r)
            elif op['op'] == 'portion':
                os.makedirs(pdir)
                with open(os.path.join(pdir, '__init__.py'), 'w') as f:
                    f.write(NS_INIT[item['flavor']])
                _stamp(os.path.join(pdir, '__init__.py'), clock.now)
                model_ops.append({'t': 'mkdir', 'd': rel(pdir)})
                stamp_up(pdir)
            elif op['op'] == 'mod':
                pth = os.path.join(pdir, op['name'] + '.py')
                with open(pth, 'w') as f:
                    f.write(ns_content(op['name'], op['version']))
                _stamp(pth, clock.now)
                model_ops.append({'t': 'addMod', 'd': rel(pdir), 'm': op['name']})
                stamp_up(pdir)
            elif op['op'] == 'delmod':
                os.remove(os.path.join(pdir, op['name'] + '.py'))
                model_ops.append({'t': 'delMod', 'd': rel(pdir), 'm': op['name']})
                stamp_up(pdir)
            elif op['op'] == 'rmportion':
                shutil.rmtree(pdir)
                model_ops.append({'t': 'rmdir', 'd': rel(pdir)})
                stamp_up(r)
        clock.tick()
        empty = os.path.join(root, 'empty-%d' % si)
        os.makedirs(empty)
        tp = spawn(empty, 'truth%d' % si)
        if item['observer'] == 'same':
            obs = _observe_ns(roots, cache, with_paths=True)
        else:
            obs = collect(*spawn(cache, 'warm%d' % si))
            model_ops.insert(0, {'t': 'newProcess'})
        truth = collect(*tp)
        shutil.rmtree(empty, ignore_errors=True)
        _restamp_pickles(cache, clock, pickles)
        out.append({'answers': obs['answers'], 'truth': truth['answers'], 'info': obs['info'],
                    'model_ops': model_ops, 'entries_present': [os.path.isdir(r) for r in roots],
                    'portions': [os.path.isdir(os.path.join(r, NS_PKG)) for r in roots]})
    shutil.rmtree(root, ignore_errors=True)
    return {'sid': item['sid'], 'steps': out, 'secs': round(time.time() - t_start, 1)}


def gen_ns_scenario(rng, sid, observer, missing_entry=False, forced=None):
    """a pkgutil-style namespace package over 2-3 sys.path entries.  Never the same module name in two portions
    (ModuleValue.py__path__ returns list(set(...)): which portion wins would depend on the hash seed).
    `missing_entry`: the last sys.path ENTRY itself does not exist at first (known finding when it is created and
    used later); otherwise every entry exists from the start and only portions `<entry>/nsp` come and go."""
    nroots = rng.choice([2, 3])
    ver = {'n': 0}
    where = {}                      # module name -> root
    portions = {0}
    entries = set(range(nroots)) - ({nroots - 1} if missing_entry else set())

    def mod(i, m):
        ver['n'] += 1
        where[m] = i
        return {'op': 'mod', 'root': i, 'name': m, 'version': ver['n']}
    steps = [[{'op': 'mkentry', 'root': i} for i in sorted(entries)] + [{'op': 'portion', 'root': 0}, mod(0, 'ma')]]
    moves = list(forced or []) + [None] * rng.randint(1, 2)
    for mv in moves[:4]:
        free = [m for m in NS_MODS if m not in where]
        absent = [i for i in range(nroots) if i not in portions]
        cands = []
        if absent and free:
            cands += ['new-portion'] * 3
        if free:
            cands.append('add-mod')
        if where:
            cands += ['overwrite', 'del-mod']
        if len(portions) > 1:
            cands.append('rm-portion')
        mv = mv if mv in cands else rng.choice(cands)
        ops = []
        if mv == 'new-portion':
            i = absent[-1] if missing_entry and (nroots - 1) in absent else rng.choice(absent)
            if i not in entries:
                ops.append({'op': 'mkentry', 'root': i})
                entries.add(i)
            portions.add(i)
            ops += [{'op': 'portion', 'root': i}, mod(i, rng.choice(free))]
        elif mv == 'add-mod':
            ops.append(mod(rng.choice(sorted(portions)), rng.choice(free)))
        elif mv == 'overwrite':
            m = rng.choice(sorted(where))
            ops.append(mod(where[m], m))
        elif mv == 'del-mod':
            m = rng.choice(sorted(where))
            ops.append({'op': 'delmod', 'root': where.pop(m), 'name': m})
        else:
            i = rng.choice(sorted(portions - {0}))
            portions.discard(i)
            for m in [m for m in where if where[m] == i]:
                where.pop(m)
            ops.append({'op': 'rmportion', 'root': i})
        steps.append(ops)
    return {'kind': 'nsportion', 'sid': sid, 'observer': observer, 'nroots': nroots,
            'flavor': rng.choice(sorted(NS_INIT)), 'missing_entry': missing_entry, 'steps': steps}


def ns_scenarios(ctx):
    rng = ctx.subrng('nsportion')
    out = [gen_ns_scenario(rng, 'ns-late-%d' % ctx.seed, 'same', forced=['new-portion', 'overwrite']),
           gen_ns_scenario(rng, 'ns-entry-%d' % ctx.seed, 'same', missing_entry=True, forced=['new-portion']),
           gen_ns_scenario(rng, 'ns-warm-%d' % ctx.seed, 'warm', forced=['new-portion'])]
    for i in range(ctx.size(2, 40)):
        out.append(gen_ns_scenario(rng, 'ns-%d-%d' % (ctx.seed, i), 'same' if i % 4 != 3 else 'warm',
                                   missing_entry=(i % 5 == 4)))
    return out


def ns_model_request(sc, res, filt=None):
    """the file-system history + one query per module name and step, for Drivers/C09 `nshistory`"""
    steps, events = [], []
    for si, st in enumerate(res['steps']):
        steps += st['model_ops']
        order = st['info'].get('sys_path_roots') or ['r%d' % i for i in range(sc['nroots'])]
        entries = [[r, r + '/' + NS_PKG] for r in order]
        for m in NS_MODS:
            events.append((si, m, len(steps)))
            steps.append({'t': 'query', 'entries': entries, 'm': m})
    rq = {'op': 'nshistory', 'steps': steps}
    if filt is not None:
        rq['filter'] = filt
    return rq, events


def ns_streams(ctx, scs, results, answers):
    for sc, res, (rq, events), ans in zip(scs, results, [ns_model_request(s, r) for s, r in zip(scs, results)], answers):
        missing_before = [False] * sc['nroots']     # was the sys.path entry missing at an earlier look of this process
        for si, st in enumerate(res['steps']):
            for label in sorted(st['answers']):
                a, b = st['answers'][label], st['truth'][label]
                ctx.count('nsportion', (sc['sid'], si, label), nontrivial=si > 0 and bool(b),
                          bucket='%s/%s/%s/%s' % (sc['observer'], sc['flavor'],
                                                  'entry-missing-at-first' if sc['missing_entry'] else 'entries-exist',
                                                  'found' if b else 'absent'),
                          sample={'label': label, 'answer': a, 'portions': st['portions']})
                if a != b:
                    late_entry = sc['observer'] == 'same' and any(
                        missing_before[i] and st['entries_present'][i] for i in range(sc['nroots']))
                    shape = 'sys-path-entry-created-after-first-query' if late_entry else 'ns-portion-stale'
                    ctx.fail('nsportion', 'a module of a pkgutil-style namespace package (portions created / removed '
                                          'between Script constructions) is answered differently from a fresh process '
                                          'with an empty cache on the same files',
                             {'shape': shape, 'observer': sc['observer'], 'flavor': sc['flavor'], 'query': label,
                              'step': si, 'ns_scenario': dict(sc, steps=sc['steps'][:si + 1]),
                              'portions': st['portions'], 'entries_present': st['entries_present']},
                             expected=b, observed=a, how='./check C09 --replay <this file>')
            for i in range(sc['nroots']):
                missing_before[i] = missing_before[i] or not st['entries_present'][i]
        # ---- correspondence: ModuleValue.py__path__ and the whole lookup vs Model/NsPath
        if ans is None:
            continue
        if isinstance(ans, dict):
            raise common.InfraError('driver error: %r' % ans)
        for si, m, idx in events:
            st = res['steps'][si]
            mo = ans[idx]
            if sc['observer'] == 'same' and 'py_path' in st['info']:
                real = st['info']['py_path']
                ctx.count('nspath', (sc['sid'], si, m), nontrivial=len(real or []) > 1,
                          bucket='%d-of-%d-portions' % (sum(st['portions']), sc['nroots']),
                          sample={'py_path': real, 'portions': st['portions']})
                if real != sorted(mo.get('cands') or []):
                    ctx.tie_broken('correspondence:nspath',
                                   short({'sid': sc['sid'], 'step': si, 'real py__path__': real,
                                          'model': mo.get('cands'), 'portions': st['portions'],
                                          'entries_present': st['entries_present']}, 900))
            got = st['answers'].get('ns-dotted-' + m)
            real_dir = os.path.dirname(got[0][2]) if got and isinstance(got[0], list) and got[0][2] else None
            if got and got[0] == 'EXC':
                continue
            ctx.count('nspath', (sc['sid'], si, m, 'found'), nontrivial=real_dir is not None,
                      bucket='lookup/%s' % ('found' if real_dir else 'absent'), sample={'m': m, 'dir': real_dir})
            if real_dir != mo.get('found'):
                ctx.tie_broken('correspondence:nspath',
                               short({'sid': sc['sid'], 'step': si, 'module': m, 'real': real_dir,
                                      'model': mo, 'portions': st['portions'],
                                      'entries_present': st['entries_present'], 'observer': sc['observer']}, 900))


# ----------------------------------------------------------------------- nsfinder: the model's finder vs importlib

def nsfinder_probe(item):
    """raw importlib in ONE process (no jedi): the history of an ns scenario, the candidate directories either
    filtered by os.path.isdir (what ModuleValue.py__path__ does) or not; reports what PathFinder finds and which
    candidates got a negative path_importer_cache entry"""
    import importlib.machinery
    root = os.path.join(SCRATCH, item['sid'])
    shutil.rmtree(root, ignore_errors=True)
    os.makedirs(root)
    roots = _ns_roots(root, item['nroots'])
    t = [BASE_MS]

    def stamp_up(p):
        t[0] += 10000
        while len(p) > len(root):
            if os.path.exists(p):
                _stamp(p, t[0])
            p = os.path.dirname(p)
    out = []
    steps = []
    for ops in item['steps']:
        for op in ops:
            r = roots[op['root']]
            pdir = os.path.join(r, NS_PKG)
            rel = os.path.relpath(pdir, root)
            if op['op'] == 'mkentry':
                if not os.path.isdir(r):
                    os.makedirs(r)
                    steps.append({'t': 'mkdir', 'd': os.path.relpath(r, root)})
                stamp_up(r)
            elif op['op'] == 'portion':
                os.makedirs(pdir)
                with open(os.path.join(pdir, '__init__.py'), 'w') as f:
                    f.write(NS_INIT[item['flavor']])
                steps.append({'t': 'mkdir', 'd': rel})
                stamp_up(pdir)
            elif op['op'] == 'mod':
                with open(os.path.join(pdir, op['name'] + '.py'), 'w') as f:
                    f.write(ns_content(op['name'], op['version']))
                steps.append({'t': 'addMod', 'd': rel, 'm': op['name']})
                stamp_up(pdir)
            elif op['op'] == 'delmod':
                os.remove(os.path.join(pdir, op['name'] + '.py'))
                steps.append({'t': 'delMod', 'd': rel, 'm': op['name']})
                stamp_up(pdir)
            elif op['op'] == 'rmportion':
                shutil.rmtree(pdir)
                steps.append({'t': 'rmdir', 'd': rel})
                stamp_up(r)
        entries = [[os.path.relpath(r, root), os.path.relpath(os.path.join(r, NS_PKG), root)] for r in roots]
        for m in NS_MODS:
            # the top-level lookup walks the sys.path entries themselves, then the package's candidates
            top = importlib.machinery.PathFinder.find_spec(NS_PKG, list(roots))
            found = None
            if top is not None and top.origin:
                cands = [os.path.join(r, NS_PKG) for r in roots]
                if item['filter']:
                    cands = [c for c in cands if os.path.isdir(c)]
                spec = importlib.machinery.PathFinder.find_spec(NS_PKG + '.' + m, cands)
                if spec is not None and spec.origin:
                    found = os.path.relpath(os.path.dirname(spec.origin), root)
            neg = sorted(os.path.relpath(k, root) for k, v in sys.path_importer_cache.items()
                         if v is None and k.startswith(root + os.sep))
            steps.append({'t': 'query', 'entries': entries, 'm': m})
            out.append({'idx': len(steps) - 1, 'm': m, 'found': found, 'neg': neg})
    shutil.rmtree(root, ignore_errors=True)
    return {'sid': item['sid'], 'request': {'op': 'nshistory', 'filter': item['filter'], 'steps': steps},
            'queries': out}


def nsfinder_stream(ctx, items, results, answers):
    for it, res, ans in zip(items, results, answers):
        if ans is None:
            continue
        if isinstance(ans, dict):
            raise common.InfraError('driver error: %r' % ans)
        for q in res['queries']:
            mo = ans[q['idx']]
            ctx.count('nsfinder', (it['sid'], q['idx']), nontrivial=bool(q['neg']) or q['found'] is not None,
                      bucket='%s/%s/%s' % ('isdir-filter' if it['filter'] else 'unfiltered',
                                           'found' if q['found'] else 'absent', 'neg' if q['neg'] else 'no-neg'),
                      sample={'filter': it['filter'], 'found': q['found'], 'neg': q['neg']})
            if q['found'] != mo.get('found') or q['neg'] != sorted(mo.get('neg') or []):
                ctx.tie_broken('correspondence:nsfinder',
                               short({'sid': it['sid'], 'filter': it['filter'], 'module': q['m'],
                                      'real importlib': [q['found'], q['neg']],
                                      'model': [mo.get('found'), mo.get('neg')]}, 900))


def replay(ctx, payload):
    from props.c08 import pmap
    inp = payload['input']
    if inp.get('shape') == 'stale-wallclock':
        os.makedirs(SCRATCH, exist_ok=True)
        for attempt in range(5):
            res = pmap('run_scenario', [[dict(inp['item'], sid='replay-wall')]], jobs=1, module='props.c09')[0][0]
            for r in res['rounds']:
                if r['second'][inp['query']] != r['truth'][inp['query']]:
                    print('query   :', inp['query'], ' gap ms:', r['gap_ms'])
                    print('observer:', r['second'][inp['query']])
                    print('fresh   :', r['truth'][inp['query']])
                    return 1
        return 0
    if 'ns_scenario' in inp:
        os.makedirs(SCRATCH, exist_ok=True)
        res = pmap('run_scenario', [[dict(inp['ns_scenario'], sid='replay-ns')]], jobs=1, module='props.c09')[0][0]
        st = res['steps'][inp['step']]
        print('query   :', inp['query'], ' portions:', st['portions'])
        print('observer:', st['answers'][inp['query']])
        print('fresh   :', st['truth'][inp['query']])
        return 1 if st['answers'][inp['query']] != st['truth'][inp['query']] else 0
    if 'scenario' not in inp:
        print(inp)
        return 0
    sc = dict(inp['scenario'])
    sc['sid'] = 'replay'
    os.makedirs(SCRATCH, exist_ok=True)
    res = pmap('run_scenario', [[sc]], jobs=1, module='props.c09')[0][0]
    st = res['steps'][inp['step']]
    print('query   :', inp['query'])
    print('observer:', st['answers'][inp['query']])
    print('fresh   :', st['truth'][inp['query']])
    return 1 if st['answers'][inp['query']] != st['truth'][inp['query']] else 0

"""C06 - extract / inline keep the program valid and equivalent.

Streams
  parens-spec   every row of the Lean table (slot of the reference x kind of right-hand side): the
                specification `needsParens` vs CPython's parser (ast of the unparenthesised
                substitution differs from / fails where the parenthesised one does not)
  parens-impl   the same rows through the real `Script.inline`: did jedi add parentheses? vs `jediParens`
  inline        real `refactoring.inline` calls on generated programs: the `names` it received are
                captured, the Lean model `inline` must give the same refusal message / node map
  replace       real `extract._replace` calls (extract_variable and extract_function): arguments
                captured, the Lean model `replaceMap` must give the same node map
  oracle-*      the property itself on the real code:
                compile   every refactoring output compiles (or the request was refused)
                equiv     pure expression selections: old and new program run to the same globals
                roundtrip extract_variable then inline of the new variable: equivalent to the original
                parens    every table row: the inlined program has the AST of the correctly
                          parenthesised one; a differing row is executed to show the changed value
  flow          (reported under oracle-compile / oracle-equiv, buckets `extract_function/flow...`) statement
                ranges = runs of 1..4 whole sibling statements of every suite of function bodies with control
                flow (gen.refactor_gen.FlowG: if / elif / else, for with break / continue / else over possibly
                empty tuples, try / except / else / finally, nested blocks, rebinding on some paths, augmented
                and tuple assignment, loop-carried names; while loops with a counter; loops nested in loop bodies;
                `if c: break / continue` at EVERY position of a loop body - in front of, between and behind nested
                loops, nested in if / try blocks, bare at the end of a branch, in the else clause of an inner loop;
                early `return` nested in an `if`; lambdas called at once, local defs with a loop and a jump of
                their own, local classes; closures: a lambda / local def whose BODY reads names of the enclosing
                function as free variables, defined some statements behind their binding and called further on, so
                that runs in front of the definition bind names whose only later use is inside a nested function
                body - next to names used directly, default arguments, shadowing parameters, comprehensions;
                such runs are drawn with more weight): extract_function, compile, then the entry function
                of the old and the new program is called on argument tuples drawn until every line of the
                selection was executed (gen.refactor_flow); same return value required wherever the
                original returns (a refactored program that does not terminate is stopped by a line / int-size
                budget and counts as different).  Selections are drawn with more weight on runs that contain jumps,
                nested loops, new scopes.  Run in fresh-interpreter workers next to the in-process streams.
  inputs        real `extract._find_inputs_and_outputs` calls: the names of the selection with the verdict of
                the real lookup for EVERY read (computed by the harness with the real `context.goto` /
                `_is_name_input`), the Lean model `findInputsOutputs` must return the same two lists
  needed        real `extract._find_needed_output_variables` calls (which of the names the selection binds are handed
                back): the children of the searched suite as forests (name leaves with is_definition(), `.name`
                trailers, funcdef / lambdef split into header and body, `start_pos < at_least_pos` per child); the Lean
                model `ExtractOut.needed` (walk shape translated from the source) must yield the same names in the same
                order, its walk the same name leaves as the real `_find_non_global_names`, and must agree with the
                specification `ExtractOut.readsLater` (stream needed-spec: every candidate read behind the selection -
                also from the body of a closure - is handed back); a disagreement starts a failing-input search
                (old and new program executed on further argument tuples)
  nonextractable  real outermost `extract._check_for_non_extractables` calls (text streams, corpus, in-process flow
                programs): the selected nodes as a forest (leaves with their value, loop statements split at `else`,
                scope nodes, other nodes); the Lean model `NonExtractable.refuses` (branches translated from the
                source) must refuse exactly when the real function raised, and must agree with the specification
                `NonExtractable.loose` (stream nonextractable-spec)
"""
import ast
import json
import os
import re
import warnings

import common
from common import short
from gen import refactor_gen, refactor_shapes, refactor_flow
from props.c07 import dump_tree, load_own_known, split_keepends, sandbox_quirk

MODELS = ['Refactor', 'Tree', 'ExtractIO', 'NonExtractable', 'ExtractOut']
MANIFEST = dict(
    text='Theorems over the model of refactoring.inline and extract._replace: inline either refuses (messages '
         'identical to the source, translator-checked) or rewrites only the references, the defining statement and '
         'the leaf after it; its parenthesisation rule is translated from the source as data (EXPRESSION_PARTS, the '
         'extra parent-type lists, the `**` disjunct, the attribute-reference slot; original and fixed shape both '
         'accepted) and evaluated once against a precedence table of 58 syntactic slots x 20 kinds of right-hand '
         'side: the unsound rows are exactly the listed ones (20 for the original source, each a kernel-checked '
         'counter-example replayed on the real code = F7/F8 and relatives; none for the fixed shape, where the FULL '
         'soundness theorem holds; a general theorem shows every rule at least as strong as the proposed fix is '
         'sound); _replace inserts the extracted line into the prefix, keeps every other byte, and keeps the whole '
         'prefix of the replaced expression; the loop of extract._find_inputs_and_outputs (which names of a '
         'statement selection become parameters; loop shape translator-checked, original and fixed shape accepted) '
         'is complete, sound and duplicate-free relative to the per-occurrence verdict of the real lookup: every '
         'read whose lookup leaves the selection yields a parameter whatever earlier occurrences of the name '
         'resolved to (kernel-checked witness that a look-up-once loop is not); _check_for_non_extractables (its '
         'branches translated from the source as data: which recursive call gets which part of the children and which '
         'value of in_loop, whether in_loop is rebound) refuses a statement selection iff it contains return / yield or a '
         'break / continue not enclosed by a loop of the selection (nested def / class / lambda start afresh, a loop\'s '
         'else clause is outside of it), and its flag never leaks from a node to the later siblings (general theorem for '
         'every variant that does not rebind the flag; kernel-checked counter-witnesses for the shared-call variant that '
         'rebinds it and for a variant that counts the else clause to the loop); _find_needed_output_variables over '
         '_find_non_global_names (model ExtractOut; the walk shape - attribute names passed over, the recursive call gets '
         'ALL children of every node - and the loop / the `or [return_variables[-1]]` expression translator-checked) hands '
         'back exactly the bound names that are read behind the selection at any depth, the bodies of nested functions '
         'and lambdas (closures) included, each once (needed_outputs_complete / _sound / _nodup, return_variables_spec; '
         'general theorem for every walk that enters nested bodies; kernel-checked counter-witness '
         'pruned_walk_misses_closure_read for a walk that leaves the body of a funcdef / lambdef out). Tie: translator + '
         'correspondence (table rows through the real inline and through CPython ast; captured inline / _replace / '
         '_find_inputs_and_outputs / _check_for_non_extractables / _find_needed_output_variables calls on generated '
         'programs). Compiles-or-refuses, '
         'behavioural equivalence and '
         'the extract->inline round trip are checked by compiling and executing generated programs (a test, '
         'labelled as such), for statement ranges on function bodies with control flow by calling the function of '
         'the old and the new program on argument tuples drawn until every line of the selection ran (the bodies '
         'contain closures that read names bound some statements earlier, so an output that is used only from a '
         'nested function body is exercised); failures of '
         'known root causes are recognised by an explicit rule per root cause (harness/gen/refactor_shapes.py, '
         'harness/gen/refactor_flow.py), anything else is a VIOLATION.',
    note='Modelled not verified: which names get_references returns, _find_nodes (selection normalisation), the '
         "lookup verdicts (context.goto, flow analysis) are oracle-checked only; the output analysis is modelled "
         "textually (which later names are looked at), that a textual read behind the selection is the right "
         "criterion (code after the enclosing statement, the next loop iteration, a closure defined BEFORE the "
         "selection) is oracle-checked only; CPython's parser is the judge of the precedence table.",
    technique='Lean 4 proof over hand-written model + translator-generated constants + differential '
              'correspondence + execution oracle',
    design='5.C06')
LEAN_TARGETS = ['JediModel.Props.C06', 'JediModel.Drivers.C06']

HOW = ("s = jedi.Script(source); r = s.<kind>(line, column, **args); new = r.get_changed_files()[None]"
       ".get_new_code(); compile(new) / exec old and new and compare module globals "
       "(or: ./check C06 --replay <this file>)")


def new_code_of(ref):
    cfs = list(ref.get_changed_files().values())
    if len(cfs) != 1:
        return None
    return cfs[0].get_new_code()


def compiles(src):
    with warnings.catch_warnings():
        warnings.simplefilter('ignore')
        try:
            compile(src, '<c06>', 'exec')
            return None
        except (SyntaxError, ValueError) as e:
            return '%s: %s' % (type(e).__name__, e.msg if hasattr(e, 'msg') else e)


def adump(src):
    with warnings.catch_warnings():
        warnings.simplefilter('ignore')
        try:
            return ast.dump(ast.parse(src))
        except (SyntaxError, ValueError):
            return None


def fail(ctx, stream, what, case, observed, expected=None, src=None, request=None):
    """ctx.fail with the root-cause shape of the input (harness/gen/refactor_shapes.py) in the case;
    `src` / `request` = the program and request the shape is read from (default: the case itself)"""
    src = case['source'] if src is None else src
    request = case if request is None else request
    shape = None
    if case.get('entry') is not None:
        try:
            shape = refactor_flow.flow_shape(src, request, stream, observed)
        except Exception:               # a rule that cannot read the input does not explain it
            shape = None
    if shape is None:
        shape = refactor_shapes.shape_of(src, request, stream, observed)
    ctx.fail(stream, what, dict(case, shape=shape), expected=expected, observed=observed, how=HOW)


# ------------------------------------------------------------------ parens table

ENVS = [
    dict(a=1, b=0, c=2, q=1, r=5), dict(a=0, b=1, c=2, q=0, r=7), dict(a=3, b=0, c=0, q=1, r=1),
    dict(a=2, b=1, c=3, q=0, r=0), dict(a=(1, 2), b=0, c=(3,), q=1, r=()),
]


def run_env(src, env):
    g = dict(env)
    g.update(s=[5, 6, 7, 8], t=[1, 2, 3], f=lambda *x, **k: (x, sorted(k.items())), k=1)
    with warnings.catch_warnings():
        warnings.simplefilter('ignore')
        try:
            exec(compile(src, '<row>', 'exec'), g)
        except Exception as e:
            return 'exc:' + type(e).__name__
    v = g.get('y')
    if callable(v):
        try:
            v = ('lambda', v())
        except Exception as e:
            v = 'lambda-exc:' + type(e).__name__
    return repr(v)


def stream_parens(ctx, table):
    import jedi
    from jedi.api.exceptions import RefactoringError
    rng = ctx.subrng('parens')
    for row in table:
        tmpl, sample = row['template'], row['sample']
        plain = tmpl.replace('X', sample)
        par = tmpl.replace('X', '(' + sample + ')')
        d_plain, d_par = adump(plain), adump(par)
        if d_par is None:
            raise common.InfraError('table template does not parse: %r' % par)
        needs_py = d_plain != d_par
        key = (row['ctx'], row['rhs'])
        ctx.count('parens-spec', key, nontrivial=True, bucket='needs' if needs_py else 'free')
        if needs_py != row['needs']:
            ctx.tie_broken('correspondence:parens-spec', short(
                {'row': key, 'table_says_needs': row['needs'], 'cpython_says_needs': needs_py,
                 'plain': plain, 'parenthesised': par}))
        # real inline (quick tier: every row that needs parentheses or sits next to one, a sample of the rest)
        if ctx.quick and not row['needs'] and rng.random() > 0.12:
            continue
        src = 'x = %s\n%s\n' % (sample, tmpl.replace('X', 'x'))
        case = {'source': src, 'line': 1, 'column': 0, 'kind': 'inline', 'row': [row['ctx'], row['rhs']]}
        try:
            new = new_code_of(jedi.Script(src).inline(1, 0))
        except RefactoringError as e:
            ctx.count('parens-impl', key, nontrivial=False, bucket='refused')
            ctx.tie_broken('correspondence:parens-impl', short({'row': key, 'refused': str(e)}))
            continue
        except Exception as e:
            if sandbox_quirk(e):
                ctx.count('raised-sandbox', None, nontrivial=False)
                continue
            raise
        want_par, want_plain = par + '\n', plain + '\n'
        real = True if new == want_par else False if new == want_plain else None
        ctx.count('parens-impl', key, nontrivial=True, bucket='parens' if real else 'plain',
                  sample={'source': src, 'new': new})
        if real is None or real != row['jedi']:
            ctx.tie_broken('correspondence:parens-impl', short(
                {'row': key, 'model_parenthesises': row['jedi'], 'new_code': new, 'source': src}))
        # the property on this row
        ctx.count('oracle-parens', key, nontrivial=True, bucket=row['parent'])
        err = compiles(new)
        if err is not None:
            fail(ctx, 'oracle-parens', 'inline result does not compile', case, expected=want_par,
                 observed={'new_code': new, 'error': err})
        elif adump(new) != d_par:
            diff = None
            for env in ENVS:
                o, n = run_env(src, env), run_env(new, env)
                if o != n:
                    diff = {'env': {k: repr(v) for k, v in env.items()}, 'old_y': o, 'new_y': n}
                    break
            if diff is not None:
                fail(ctx, 'oracle-parens', 'inlined program computes a different value', case,
                     expected=want_par, observed=dict(diff, new_code=new))
            else:
                ctx.count('oracle-parens-ast-differs-no-witness', key, nontrivial=False, bucket=row['ctx'])


# ------------------------------------------------------------------ capturing the real calls

class Capture:
    def __init__(self):
        self.inline_names = None
        self.replace_calls = []
        self.inputs_calls = []      # (request for the Lean model, what the real function returned)
        self.check_calls = []       # outermost `_check_for_non_extractables` calls: (request, {'refused': bool})
        self.check_depth = 0
        self.needed_calls = []      # `_find_needed_output_variables` calls: (request, {'needed': [...], 'names': [...]})

    def __enter__(self):
        from jedi.api import refactoring
        from jedi.api.refactoring import extract
        import jedi.api as api
        self.mods = (refactoring, extract)
        self.orig = (refactoring.inline, extract._replace, extract._find_inputs_and_outputs,
                     extract._check_for_non_extractables, extract._find_needed_output_variables)
        cap = self

        def _check_for_non_extractables(nodes, in_loop=False):
            # the function calls itself through the module global: only the outermost call is recorded
            cap.check_depth += 1
            try:
                res = cap.orig[3](nodes, in_loop)
                raised = False
                return res
            except RefactoringErrorBox.cls:
                raised = True
                raise
            finally:
                cap.check_depth -= 1
                if cap.check_depth == 0 and not in_loop:
                    try:
                        cap.check_calls.append((nonextractable_request(nodes), {'refused': raised}))
                    except NameError:       # another exception class left the function: not recorded
                        pass

        def inline(inference_state, names):
            cap.inline_names = list(names)
            return cap.orig[0](inference_state, names)

        def _replace(nodes, expression_replacement, extracted, pos, insert_before_leaf=None,
                     remaining_prefix=None):
            res = cap.orig[1](nodes, expression_replacement, extracted, pos, insert_before_leaf, remaining_prefix)
            cap.replace_calls.append((list(nodes), expression_replacement, extracted, insert_before_leaf,
                                      remaining_prefix, dict(res)))
            return res
        def _find_inputs_and_outputs(module_context, context, nodes):
            res = cap.orig[2](module_context, context, nodes)
            try:
                cap.inputs_calls.append(inputs_request(module_context, context, nodes, res))
            except Exception as e:      # the verdicts use the same inference as the call itself
                if not sandbox_quirk(e):
                    raise
            return res
        def _find_needed_output_variables(context, search_node, at_least_pos, return_variables):
            # a generator in the source: consumed here, handed on as an iterator
            candidates = list(return_variables)
            res = list(cap.orig[4](context, search_node, at_least_pos, return_variables))
            cap.needed_calls.append(needed_request(search_node, at_least_pos, candidates, res))
            return iter(res)
        refactoring.inline = inline
        extract._replace = _replace
        extract._find_needed_output_variables = _find_needed_output_variables
        extract._find_inputs_and_outputs = _find_inputs_and_outputs
        extract._check_for_non_extractables = _check_for_non_extractables
        from jedi.api.exceptions import RefactoringError
        RefactoringErrorBox.cls = RefactoringError
        return self

    def __exit__(self, *a):
        self.mods[0].inline, self.mods[1]._replace, self.mods[1]._find_inputs_and_outputs = self.orig[:3]
        self.mods[1]._check_for_non_extractables = self.orig[3]
        self.mods[1]._find_needed_output_variables = self.orig[4]


class RefactoringErrorBox:
    cls = ()


LOOP_TYPES = ('for_stmt', 'while_stmt')
SCOPE_TYPES = ('funcdef', 'classdef', 'lambdef')


def nonextractable_request(nodes):
    """the selection as the forest the Lean model `NonExtractable.check` walks: leaves with their value, loop
    statements split at their `else` keyword, scope nodes, other nodes (node types: the python grammar, not read
    from jedi)"""
    def conv(ns):
        out = []
        for n in ns:
            if not hasattr(n, 'children'):
                out.append({'k': 'leaf', 'v': n.value})
            elif n.type in LOOP_TYPES:
                ch = n.children
                idx = len(ch)
                for i, c in enumerate(ch):
                    if c.type == 'keyword' and c.value == 'else':
                        idx = i
                out.append({'k': 'loop', 'b': conv(ch[:idx]), 'e': conv(ch[idx:])})
            elif n.type in SCOPE_TYPES:
                out.append({'k': 'scope', 'c': conv(n.children)})
            else:
                out.append({'k': 'other', 'c': conv(n.children)})
        return out
    return {'op': 'nonextractable', 'nodes': conv(nodes)}


FUNCTION_SCOPE_TYPES = ('funcdef', 'lambdef')


def needed_request(search_node, at_least_pos, candidates, result):
    """the children of `search_node` as the forests of the Lean model `ExtractOut` (name leaves with is_definition(),
    runs of other leaves as one leaf, `.name` trailers, funcdef / lambdef split into children[:-1] and the body,
    other nodes; node types: the python grammar, not read from jedi), each with `start_pos < at_least_pos`; the
    implementation side: what the real generator yielded and what the real `_find_non_global_names` yields for
    all children"""
    from jedi.api.refactoring import extract

    def conv(ns):
        out = []
        for n in ns:
            ch = getattr(n, 'children', None)
            if ch is None:
                if n.type == 'name':
                    out.append({'k': 'name', 'v': n.value, 'd': bool(n.is_definition())})
                elif not out or out[-1]['k'] != 'leaf':
                    out.append({'k': 'leaf'})
            elif n.type == 'trailer' and ch[0] == '.':
                out.append({'k': 'attr', 'c': conv(ch)})
            elif n.type in FUNCTION_SCOPE_TYPES:
                out.append({'k': 'scope', 'h': conv(ch[:-1]), 'b': conv(ch[-1:])})
            else:
                out.append({'k': 'node', 'c': conv(ch)})
        return out
    sibs = [{'before': bool(n.start_pos < at_least_pos), 'tree': conv([n])} for n in search_node.children]
    names = [[n.value, bool(n.is_definition())] for n in extract._find_non_global_names(search_node.children)]
    return ({'op': 'needed', 'sibs': sibs, 'rv': list(candidates)},
            {'needed': list(result), 'names': names})


def needed_bucket(req, ans):
    """where the candidates are read behind the selection (histogram key; from the request alone)"""
    rv = set(req['rv'])
    direct, inner = set(), set()

    def walk(forest, in_body):
        for n in forest:
            if n['k'] == 'name':
                if not n['d'] and n['v'] in rv:
                    (inner if in_body else direct).add(n['v'])
            elif n['k'] == 'scope':
                walk(n['h'], in_body)
                walk(n['b'], True)
            elif n['k'] == 'node':
                walk(n['c'], in_body)
    for sib in req['sibs']:
        if not sib['before']:
            walk(sib['tree'], False)
    if inner - direct:
        return 'read-only-from-a-nested-function-body'
    if inner:
        return 'read-directly-and-from-a-nested-function-body'
    return 'read-directly' if direct else 'no-candidate-read-later' if rv else 'no-candidate'


def inputs_request(module_context, context, nodes, result):
    """the name leaves of the selection as `_find_inputs_and_outputs` walks them, each with the verdict of the
    REAL lookup of that occurrence (asked for every read, also those the loop of the source skips)"""
    from jedi.api.refactoring import extract
    first, last = nodes[0].start_pos, nodes[-1].end_pos
    occs = []
    for name in extract._find_non_global_names(nodes):
        is_def = name.is_definition()
        aug = False
        if is_def:
            d = name.get_definition()
            aug = d is not None and d.type == 'expr_stmt' and d.children[1].type == 'operator' \
                and d.children[1].value != '='
        outer = False
        if not is_def or aug:
            pos = extract._get_lookup_position(name) if hasattr(extract, '_get_lookup_position') \
                else name.start_pos
            defs = context.goto(name, pos)
            outer = (not defs) or bool(extract._is_name_input(module_context, defs, first, last))
        occs.append({'value': name.value, 'is_def': bool(is_def), 'aug': bool(aug), 'outer': bool(outer)})
    return {'op': 'inputs', 'occs': occs}, {'inputs': list(result[0]), 'outputs': list(result[1])}


def _is_dstar(node):
    return node is not None and node.type == 'operator' and node.value == '**'


def inline_request(names, module_node):
    """the facts `inline` inspects, read off the captured names (single-file cases only)"""
    tree, ids = dump_tree(module_node)
    ns = []
    defs = []
    for n in names:
        tn = n.tree_name
        if tn is None:
            ns.append({'api_type': n.api_type, 'has_tree': False, 'is_def': False, 'id': 0, 'prefix': '',
                       'parent_type': '', 'parent_next': False, 'parent_id': 0, 'dot_trailer': False,
                       'first_prefix': '', 'before': [], 'prev_dstar': False, 'slot_parent_type': '',
                       'slot_parent_next': False, 'slot_prev_dstar': False})
            continue
        if id(tn) not in ids:
            return None, None
        par = tn.parent
        dot = par.type == 'trailer' and par.children[0] == '.'
        before, first_prefix = [], ''
        if dot:
            sibs = par.parent.children
            before = [ids[id(x)] for x in sibs[:sibs.index(par)]]
            first_prefix = sibs[0].get_first_leaf().prefix if hasattr(sibs[0], 'children') else sibs[0].prefix
        is_def = tn.is_definition()
        if is_def:
            defs.append(tn)
        # the slot of the whole `obj.name` (inspected by the fixed source for a final `.name` trailer)
        whole = par.parent if dot else None
        wpar = whole.parent if whole is not None else None
        ns.append({'api_type': n.api_type, 'has_tree': True, 'is_def': is_def, 'id': ids[id(tn)],
                   'prefix': tn.prefix, 'parent_type': par.type,
                   'parent_next': par.get_next_sibling() is not None, 'parent_id': ids[id(par)],
                   'dot_trailer': dot, 'first_prefix': first_prefix, 'before': before,
                   'prev_dstar': _is_dstar(tn.get_previous_sibling()),
                   'slot_parent_type': wpar.type if wpar is not None else '',
                   'slot_parent_next': wpar is not None and wpar.get_next_sibling() is not None,
                   'slot_prev_dstar': whole is not None and _is_dstar(whole.get_previous_sibling())})
    d = {'stmt_type': '', 'stmt_id': 0, 'n_defined': 0, 'child1_type': '', 'child1_value': '', 'child1_code': '',
         'ann_len': 0, 'ann2_value': '', 'rhs_type': '', 'rhs_code': '', 'stmt_prefix': '', 'next_id': 0,
         'next_prefix': '', 'next_type': '', 'next_value': ''}
    if len(defs) == 1:
        st = defs[0].get_definition()
        d['stmt_type'] = st.type
        d['stmt_id'] = ids[id(st)]
        if st.type == 'expr_stmt':
            d['n_defined'] = len(st.get_defined_names(include_setitem=True))
            c1 = st.children[1]
            d['child1_type'] = c1.type
            d['child1_value'] = getattr(c1, 'value', '')
            d['child1_code'] = c1.get_code(include_prefix=False)
            if c1.type == 'annassign':
                d['ann_len'] = len(c1.children)
                if len(c1.children) > 2:
                    d['ann2_value'] = getattr(c1.children[2], 'value', '')
            ok = c1 == '=' or (c1.type == 'annassign' and len(c1.children) == 4)
            if ok and d['n_defined'] <= 1:
                rhs = st.get_rhs()
                d['rhs_type'] = rhs.type
                d['rhs_code'] = rhs.get_code(include_prefix=False)
                d['stmt_prefix'] = st.get_first_leaf().prefix
                nl = st.get_next_leaf()
                d['next_id'] = ids[id(nl)]
                d['next_prefix'] = nl.prefix
                d['next_type'] = nl.type
                d['next_value'] = nl.value
    return {'op': 'inline', 'names': ns, 'def': d}, ids


def replace_request(call, module_node):
    nodes, repl, extracted, ins, remaining, res = call
    tree, ids = dump_tree(module_node)
    from jedi.api.refactoring.extract import _get_parent_definition
    if ins is None:
        ins = _get_parent_definition(nodes[0]).get_first_leaf()
    first = nodes[0].get_first_leaf()
    req = {'op': 'replace', 'same': first is ins, 'node0': ids[id(nodes[0])], 'first_prefix': first.prefix,
           'ins_id': ids[id(ins)], 'ins_prefix': ins.prefix, 'ins_value': ins.value,
           'rest': [ids[id(n)] for n in nodes[1:]], 'replacement': repl, 'extracted': extracted,
           'remaining': remaining}
    impl = sorted([ids[id(k)], v] for k, v in res.items())
    return req, impl


# ------------------------------------------------------------------ generated programs

def selection_info(src, start, end):
    """purity-clause exclusions, read off the parso tree of the *input* (never used to judge outputs)"""
    import parso
    mod = parso.parse(src)
    leaf = mod.get_leaf_for_position(start, include_prefixes=True)
    if leaf is not None and leaf.end_pos <= start and leaf.get_next_leaf() is not None:
        leaf = leaf.get_next_leaf()     # a range that starts where a leaf ends starts with the next leaf
    info = {'while_cond': False, 'binds': False, 'target': False, 'multiline': start[0] != end[0],
            'in_lambda_or_comp': False}
    text_lines = split_keepends(src)
    sel_names = set()
    l = leaf
    while l is not None and l.start_pos < end:
        if l.type == 'name' and l.start_pos >= start:
            sel_names.add(l.value)
            if l.is_definition():
                info['target'] = True
        l = l.get_next_leaf()
    n = leaf
    while n is not None and n.parent is not None:
        p = n.parent
        if p.type == 'while_stmt' and n is p.children[1]:
            info['while_cond'] = True
        if p.type == 'lambdef':
            info['in_lambda_or_comp'] = True
            bound = {x.value for x in _names_in(p.children[1:-2])}
            if bound & sel_names:
                info['binds'] = True
        if p.type in ('testlist_comp', 'argument', 'dictorsetmaker') and any(
                getattr(c, 'type', '') in ('comp_for', 'sync_comp_for') for c in p.children):
            info['in_lambda_or_comp'] = True
            bound = set()
            for c in p.children:
                if getattr(c, 'type', '') in ('comp_for', 'sync_comp_for'):
                    bound |= {x.value for x in _names_in([c]) if x.is_definition()}
            if bound & sel_names:
                info['binds'] = True
        n = p
    return info


def _names_in(nodes):
    for n in nodes:
        if hasattr(n, 'children'):
            yield from _names_in(n.children)
        elif n.type == 'name':
            yield n


def expression_selections(src):
    import parso
    mod = parso.parse(src)
    out = []

    def rec(n):
        if hasattr(n, 'children'):
            if n.type in ('arith_expr', 'term', 'atom', 'comparison', 'or_test', 'and_test', 'not_test', 'test',
                          'factor', 'power', 'atom_expr', 'shift_expr', 'expr', 'xor_expr', 'and_expr', 'lambdef'):
                out.append((n.start_pos, n.end_pos, n.type, True))
                # a sub-range of an operator chain: operands i..j
                ops = n.children[0::2]
                if n.type in ('arith_expr', 'term', 'or_test', 'and_test', 'expr', 'xor_expr', 'and_expr',
                              'shift_expr') and len(ops) > 2:
                    out.append((ops[1].start_pos, ops[-1].end_pos, n.type + '/tail', False))
                    out.append((ops[0].start_pos, ops[1].end_pos, n.type + '/head', False))
            for c in n.children:
                rec(c)
        elif n.type in ('name', 'number') and n.parent.type not in ('funcdef', 'classdef', 'param', 'trailer'):
            out.append((n.start_pos, n.end_pos, n.type, True))
    rec(mod)
    return out


def statement_ranges(src):
    import parso
    mod = parso.parse(src)
    out = []
    for f in mod.iter_funcdefs():
        suite = f.children[-1]
        if suite.type != 'suite':
            continue
        stmts = [c for c in suite.children if c.type not in ('newline', 'indent', 'dedent')]
        for i in range(len(stmts)):
            for j in range(i, min(i + 3, len(stmts))):
                last = stmts[j].get_last_leaf()
                if last.type == 'newline':
                    last = last.get_previous_leaf()
                out.append((stmts[i].start_pos, last.end_pos, False))
                out.append((stmts[i].start_pos, stmts[j].end_pos, True))
    return out


def name_positions(src):
    import parso
    mod = parso.parse(src)
    out = []
    leaf = mod.get_first_leaf()
    while leaf is not None:
        if leaf.type == 'name':
            out.append((leaf.start_pos, leaf.value, leaf.is_definition()))
        leaf = leaf.get_next_leaf()
    return out


def compare_runs(old, new, ignore):
    if old[0] != new[0]:
        return {'old': old[:2] if old[0] != 'ok' else 'ok', 'new': new[:2] if new[0] != 'ok' else 'ok'}
    if old[0] != 'ok':
        return None if old[1] == new[1] or old[0] == 'budget' else {'old': old, 'new': new}
    diff = {}
    for k in set(old[1]) & set(new[1]):
        if k not in ignore and old[1][k] != new[1][k]:
            diff[k] = {'old': old[1][k], 'new': new[1][k]}
    for k in set(old[1]) - set(new[1]) - set(ignore):
        diff[k] = {'old': old[1][k], 'new': '<missing>'}
    return diff or None


def classify_inline(src, pos):
    """tags describing the inline input: is the definition followed/preceded by `;`, the slot of
    every reference (parent type) and the kind of right-hand side"""
    import parso
    mod = parso.parse(src)
    leaf = mod.get_first_leaf()
    while leaf is not None and not (leaf.type == 'name' and leaf.start_pos <= tuple(pos) < leaf.end_pos):
        leaf = leaf.get_next_leaf()
    tags = set()
    if leaf is None:
        return tags
    name = leaf.value
    l = mod.get_first_leaf()
    rhs_type = None
    while l is not None:
        if l.type == 'name' and l.value == name:
            if l.is_definition():
                st = l.get_definition()
                if st is not None and st.type == 'expr_stmt':
                    simple = st.parent
                    if simple.type == 'simple_stmt' and any(c == ';' for c in simple.children):
                        tags.add('semicolon-statement')
                    try:
                        rhs_type = st.get_rhs().type
                    except Exception:
                        pass
            else:
                tags.add('slot:' + l.parent.type)
                if l.parent.type == 'trailer' and l.parent.children[0] == '.':
                    tags.add('attribute-reference')
        l = l.get_next_leaf()
    if rhs_type:
        tags.add('rhs:' + rhs_type)
    return tags


def stream_programs(ctx, reqs, pending):
    import jedi
    from jedi.api.exceptions import RefactoringError
    rng = ctx.subrng('programs')
    for pi in range(ctx.size(14, 800)):
        src = refactor_gen.gen_source(rng, unicode_names=rng.random() < 0.15,
                                      eol='\r\n' if rng.random() < 0.1 else '\n',
                                      final_newline=rng.random() < 0.85)
        old_run = refactor_gen.run_program(src)
        if old_run[0] != 'ok':
            ctx.count('generator-rejects', None, nontrivial=False, bucket=old_run[0])
            continue
        sels = expression_selections(src)
        rng.shuffle(sels)
        todo = []
        for (s, e, typ, whole) in sels[:ctx.size(7, 14)]:
            kind = 'extract_variable' if rng.random() < 0.65 else 'extract_function'
            explicit = (not whole) or rng.random() < 0.5
            todo.append((kind, s, e if explicit else None, typ, whole))
        # stratum: expressions inside methods that mention `self` (the bound-method path of
        # extract_function: self parameter, `self.` call) - two per program that has a class
        lines_ = src.splitlines()
        with_self = [x for x in sels if x[0][0] == x[1][0] and x[0][0] <= len(lines_)
                     and 'self' in lines_[x[0][0] - 1][x[0][1]:x[1][1]]]
        for (s, e, typ, whole) in with_self[:2]:
            todo.append(('extract_function', s, e, typ, whole))
        st = statement_ranges(src)
        rng.shuffle(st)
        for (s, e, nextline) in st[:ctx.size(3, 6)]:
            todo.append(('extract_function', s, e, 'stmts-nextline' if nextline else 'stmts', False))
        names = name_positions(src)
        rng.shuffle(names)
        for (p, nm, isdef) in names[:ctx.size(4, 8)]:
            todo.append(('inline', p, None, 'name', True))
        for kind, s, e, typ, whole in todo:
            case = {'source': src, 'kind': kind, 'line': s[0], 'column': s[1],
                    'until_line': e[0] if e else None, 'until_column': e[1] if e else None}
            info = selection_info(src, s, e) if e is not None and kind != 'inline' else None
            case['tags'] = sorted(classify_inline(src, s)) if kind == 'inline' else [typ]
            key = (src, kind, s, e)
            script = jedi.Script(src)
            with Capture() as cap:
                try:
                    if kind == 'inline':
                        ref = script.inline(*s)
                    else:
                        kw = {} if e is None else {'until_line': e[0], 'until_column': e[1]}
                        ref = getattr(script, kind)(s[0], s[1], new_name='extracted_1', **kw)
                    err = None
                except (RefactoringError, ValueError) as ex:
                    ref, err = None, ex
                except Exception as ex:
                    # totality / exception classes are C07's statement: counted, not judged here
                    cls, site = common.exc_site(ex)
                    ctx.count('raised', None, nontrivial=False, bucket='%s@%s' % (cls, site))
                    continue
            # --- correspondence: inline model
            if kind == 'inline' and cap.inline_names is not None:
                names_ = cap.inline_names
                files = {n.get_root_context().py__file__() for n in names_ if n.tree_name is not None}
                if len(files) <= 1 and all(n.tree_name is not None for n in names_):
                    req, ids = inline_request(names_, script._module_node)
                    if req is not None:
                        if err is not None:
                            impl = {'error': str(err)}
                        else:
                            m = ref._file_to_node_changes
                            impl = {'map': sorted([ids[id(k)], v] for mm in m.values() for k, v in mm.items())}
                        reqs.append(req)
                        pending.append(('inline', case, impl))
            for call in cap.replace_calls:
                if err is None:
                    req, impl = replace_request(call, script._module_node)
                    reqs.append(req)
                    pending.append(('replace', case, impl))
            for req, impl in cap.inputs_calls:
                reqs.append(req)
                pending.append(('inputs', case, impl))
            for req, impl in cap.check_calls:
                reqs.append(req)
                pending.append(('nonextractable', case, impl))
            for req, impl in cap.needed_calls:
                reqs.append(req)
                pending.append(('needed', case, impl))
            if err is not None:
                ctx.count('oracle-compile', key, nontrivial=False, bucket=kind + '/refused')
                continue
            new = new_code_of(ref)
            if new is None:
                continue
            # --- compiles-or-refuses
            ctx.count('oracle-compile', key, nontrivial=True, bucket='%s/%s' % (kind, typ),
                      sample={'request': {k: v for k, v in case.items() if k != 'source'}})
            cerr = compiles(new)
            if cerr is not None:
                fail(ctx, 'oracle-compile', '%s returned a program that does not compile' % kind, case,
                     observed={'error': cerr, 'new_code': new})
                continue
            # --- equivalence (pure, evaluated-once expression selections; inline of single assignments)
            judged = False
            if kind == 'inline':
                judged = True
            elif not typ.startswith('stmts') and info is not None and not (info['while_cond'] or info['binds'] or info['target']):
                judged = True
            elif not typ.startswith('stmts') and e is None:
                judged = False      # cursor-only: jedi chooses the range; covered when explicit
            new_run = refactor_gen.run_program(new)
            ignore = {'extracted_1'}
            if kind == 'inline':
                import unicodedata
                ignore.add(unicodedata.normalize('NFKC', [n for (p, n, d) in names if p == s][0]))
            diff = compare_runs(old_run, new_run, ignore)
            ctx.count('oracle-equiv' if judged else 'equiv-not-judged', key, nontrivial=judged,
                      bucket='%s/%s%s' % (kind, typ, '' if diff is None else '/differs'))
            if judged and diff is not None:
                fail(ctx, 'oracle-equiv', '%s changed the behaviour of the program' % kind, case,
                     observed={'differences': diff, 'new_code': new})
                continue
            # --- extract -> inline round trip
            if kind == 'extract_variable' and judged and diff is None:
                m = re.search(r'(?m)^[ \t]*extracted_1 = ', new)
                if m:
                    line = new.count('\n', 0, m.start()) + 1
                    col = m.end() - len('extracted_1 = ') - (new.rfind('\n', 0, m.start()) + 1)
                    try:
                        back = new_code_of(jedi.Script(new).inline(line, col))
                    except (RefactoringError, ValueError) as ex:
                        ctx.count('oracle-roundtrip', key, nontrivial=False, bucket='inline-refused')
                        continue
                    except Exception as ex:
                        ctx.count('raised', None, nontrivial=False, bucket=type(ex).__name__)
                        continue
                    rcase = dict(case, kind='extract_variable+inline', tags=sorted(classify_inline(new, (line, col))))
                    # the shape of a round-trip failure is read from the inline request on the intermediate program
                    rreq = {'kind': 'inline', 'line': line, 'column': col}
                    ctx.count('oracle-roundtrip', key, nontrivial=True, bucket=typ)
                    cerr = compiles(back)
                    if cerr is not None:
                        fail(ctx, 'oracle-roundtrip', 'extract_variable then inline does not compile', rcase,
                             observed={'error': cerr, 'after_extract': new, 'after_inline': back}, src=new,
                             request=rreq)
                        continue
                    d2 = compare_runs(old_run, refactor_gen.run_program(back), {'extracted_1'})
                    if d2 is not None:
                        fail(ctx, 'oracle-roundtrip', 'extract_variable then inline is not equivalent to the '
                             'original', rcase, observed={'differences': d2, 'after_inline': back}, src=new,
                             request=rreq)


# ------------------------------------------------------------------ statement ranges with control flow

FLOW_HOW = ("s = jedi.Script(source); new = s.extract_function(line, column, new_name='extracted_1', until_line=.., "
            "until_column=..).get_changed_files()[None].get_new_code(); exec old and new; "
            "eval(entry)(*args) in both and compare (or: ./check C06 --replay <this file>)")
CORPUS_DIR = os.path.join(common.VERIF, 'corpus', 'C06')


def flow_case(src, entry, sel, args, tags):
    return {'source': src, 'kind': 'extract_function', 'line': sel['start'][0], 'column': sel['start'][1],
            'until_line': sel['until'][0], 'until_column': sel['until'][1], 'entry': entry, 'args': args,
            'tags': tags}


def flow_bucket(sel):
    comp = sorted({k for k in sel.get('kinds', []) if k in ('if', 'for', 'try', 'while', 'with')})
    return 'extract_function/flow:%s:%s' % ('nested' if sel.get('depth') else 'body', '+'.join(comp) or 'simple')


def flow_inside(sel):
    """what `_check_for_non_extractables` has to decide on in this run of statements (histogram key)"""
    ins = list(sel.get('inside') or [])
    tags = []
    jumps = [i for i, w in enumerate(ins) if w in ('break', 'continue')]
    if jumps:
        tags.append('jump-behind-loop' if 'loop' in ins[:jumps[-1]] else 'jump')
    elif 'loop' in ins:
        tags.append('loop')
    if 'return' in ins[:-1] or ('return' in ins and not sel.get('ends_return')):
        tags.append('return')
    if any(w in ins for w in ('def', 'class', 'lambda')):
        tags.append('scope')
    return '+'.join(tags) or 'plain'


def flow_judge(ctx, r, origin='generated program'):
    """one record of gen.refactor_flow (worker or corpus) -> counts and failures; a corpus input and a generated
    one that fail alike are reported separately (one replay each)"""
    if r.get('rec') != 'case':
        ctx.count('generator-rejects', None, nontrivial=False, bucket=str(r.get('detail'))[:60])
        return
    sel = r['sel']
    key = (r.get('key') or r.get('source'), tuple(sel['start']), tuple(sel['until']))
    bucket = flow_bucket(sel)
    if r['status'] == 'refused':
        ctx.count('oracle-compile', key, nontrivial=False, bucket='extract_function/flow/refused:' + flow_inside(sel))
        return
    if r['status'] == 'raised':
        # totality / exception classes are C07's statement: counted, not judged here
        ctx.count('raised', None, nontrivial=False, bucket=r['detail'])
        return
    ctx.count('oracle-compile', key, nontrivial=True, bucket=bucket,
              sample={'request': {'start': sel['start'], 'until': sel['until'], 'kinds': sel.get('kinds')}})
    if r['status'] in ('no-compile', 'differs') and r.get('source') is not None:
        FLOW_FAILED.add((r['source'], tuple(sel['start']), tuple(sel['until'])))
    if r['status'] == 'no-compile':
        case = flow_case(r['source'], r['entry'], sel, [], ['flow'] + list(sel.get('kinds', [])))
        fail(ctx, 'oracle-compile', 'extract_function returned a program that does not compile (%s)' % origin, case,
             observed={'error': r['error'], 'new_code': r['new_code']})
        return
    covered = r['covered'] == r['need']
    ctx.count('oracle-equiv', key, nontrivial=covered and r['nargs'] > r['old_raises'],
              bucket=bucket + ('' if covered else '/not-every-line-run') + ('/differs' if r['status'] == 'differs' else ''))
    if r['status'] == 'differs':
        for f in r['failures']:
            case = flow_case(r['source'], r['entry'], sel, [f['args']] if f['args'] else [],
                             ['flow'] + list(sel.get('kinds', [])))
            fail(ctx, 'oracle-equiv', 'extract_function changed the behaviour of the function (%s)' % origin, case,
                 expected={'outcome': f['old_outcome']},
                 observed={'args': f['args'], 'old_outcome': f['old_outcome'], 'new_outcome': f['new_outcome'],
                           'new_code': r['new_code']})


def flow_one(src, entry, sel, args, sink=None):
    """the property on one given (program, selection, argument tuples), in-process; sink = (reqs, pending):
    the captured `_find_inputs_and_outputs` call goes to the Lean correspondence"""
    sel = dict(sel)
    full = [x for x in refactor_flow.selections(src)
            if x['start'] == list(sel['start']) and x['until'] == list(sel['until'])]
    if full:
        sel = full[0]
    else:
        sel.setdefault('kinds', [])
        sel.setdefault('depth', 0)
    old = refactor_flow.Runner(src)
    if old.error is not None:
        return {'rec': 'generator-rejects', 'detail': old.error}
    need = refactor_flow.selection_lines(src, {'start': sel['start'], 'until': sel['until']})
    fname = entry.split('.')[-1].rstrip('()')
    runs = [old.call(entry, a, trace_func=fname) for a in args]
    covered = set()
    for _o, lines in runs:
        covered |= lines & need
    e = {'entry': entry, 'name': fname}
    with Capture() as cap:
        res = refactor_flow.check_selection(src, e, sel, args, runs)
    if sink is not None:
        case = flow_case(src, entry, sel, args, ['flow'])
        for req, impl in cap.inputs_calls:
            sink[0].append(req)
            sink[1].append(('inputs', case, impl))
        for req, impl in cap.check_calls:
            sink[0].append(req)
            sink[1].append(('nonextractable', case, impl))
        for req, impl in cap.needed_calls:
            sink[0].append(req)
            sink[1].append(('needed', case, impl))
    res.update({'rec': 'case', 'entry': entry, 'sel': sel, 'covered': len(covered), 'need': len(need),
                'old_raises': sum(1 for (o, l_) in runs if o[0] != 'ok' or refactor_flow.exception_leaves(l_, sel)),
                'nargs': len(args), 'source': src,
                'args_all': args})
    return res


def flow_in_process(ctx, sink):
    """a few generated flow programs in-process: their `_find_inputs_and_outputs` calls feed the Lean
    correspondence (the bulk of the flow stream runs in workers, oracle only)"""
    rng = ctx.subrng('flow-in-process')
    for _ in range(ctx.size(10, 150)):
        src, entries = refactor_gen.gen_flow_program(rng)
        sels = refactor_flow.selections(src)
        for entry in entries:
            mine = [x for x in sels if x['func'] == entry['name']]
            args = refactor_gen.flow_arguments(rng, entry, 8)
            picked = refactor_flow.pick_selections(rng, mine, 4)
            # runs that bind a free variable of a closure defined behind them: the `needed` correspondence wants them
            feeding = [x for x in mine if x.get('closure') and x['n'] > 1 and x not in picked]
            picked += sorted(feeding, key=lambda x: (x['closure'] != 'only', x.get('depth', 0), x['n']))[:2]
            for sel in picked:
                flow_judge(ctx, flow_one(src, entry['entry'], sel, args, sink))
    # stratum: runs whose bound names are read behind them ONLY from the body of a closure (programs are cheap to
    # generate, only these runs are evaluated)
    want, tries = ctx.size(8, 80), 0
    while want > 0 and tries < ctx.size(60, 600):
        tries += 1
        src, entries = refactor_gen.gen_flow_program(rng)
        sels = [x for x in refactor_flow.selections(src) if x.get('closure') == 'only' and x['n'] > 1]
        for entry in entries:
            mine = [x for x in sels if x['func'] == entry['name']]
            if not mine:
                continue
            args = refactor_gen.flow_arguments(rng, entry, 8)
            for sel in mine[:2]:
                want -= 1
                flow_judge(ctx, flow_one(src, entry['entry'], sel, args, sink))


def flow_corpus(ctx, sink=None):
    """corpus/C06/*.json: minimised past failures (one per root cause + the seeded classes), run first"""
    import glob
    for path in sorted(glob.glob(os.path.join(CORPUS_DIR, '*.json'))):
        with open(path, encoding='utf-8') as f:
            c = json.load(f)
        if c.get('stream') != 'flow':
            continue
        flow_judge(ctx, flow_one(c['source'], c['entry'], {'start': c['start'], 'until': c['until']}, c['args'],
                                 sink), origin='corpus/C06/' + os.path.basename(path))


class FlowJob:
    """the generated part of the flow stream: fresh-interpreter workers (common.parallel_map), started
    before and collected after the in-process streams"""

    def __init__(self, ctx):
        import threading
        n = ctx.size(280, 4000)
        self.items = [{'seed': 'C06-%s-flow-%d' % (ctx.seed, i), 'programs': 1,
                       'per_program': ctx.size(8, 12), 'nargs': ctx.size(10, 16)} for i in range(n)]
        self.result = None
        self.error = None
        self.thread = threading.Thread(target=self._run, daemon=True)
        self.thread.start()

    def _run(self):
        import time
        t0 = time.time()
        try:
            self.result = common.parallel_map('gen.refactor_flow', 'flow_worker', self.items, jobs=14)
        except BaseException as e:     # noqa: re-raised in the main thread
            self.error = e
        self.wall = time.time() - t0

    def finish(self, ctx):
        self.thread.join()
        if self.error is not None:
            raise self.error
        n = 0
        for recs in self.result:
            for r in recs:
                n += 1
                flow_judge(ctx, r)
        ctx.notes.append('flow stream: %d programs, %d (program, selection) cases in %.0f s wall of 14 workers, '
                         'concurrent with the in-process streams' % (len(self.items), n, self.wall))


def fixed_probes(ctx):
    """DESIGN section 6 F7 / F8 and the defects found while building this check, kept alive"""
    import jedi
    probes = [
        ('x = a if b else c; y = x if d else e\n', (1, 0), ['semicolon-statement', 'rhs:test', 'slot:test']),
        ('x = a or b\ny = [*x]\n', (1, 0), ['rhs:or_test', 'slot:star_expr']),
        ('x = 1; y = x\n', (1, 0), ['semicolon-statement', 'rhs:number', 'slot:expr_stmt']),
    ]
    for src, pos, tags in probes:
        case = {'source': src, 'kind': 'inline', 'line': pos[0], 'column': pos[1], 'until_line': None,
                'until_column': None, 'tags': sorted(classify_inline(src, pos))}
        new = new_code_of(jedi.Script(src).inline(*pos))
        ctx.count('oracle-compile', (src, pos), nontrivial=True, bucket='probe')
        cerr = compiles(new)
        if cerr is not None:
            fail(ctx, 'oracle-compile', 'inline returned a program that does not compile', case,
                 observed={'error': cerr, 'new_code': new})
    src = 'x = (1 +\n     2)\n'
    case = {'source': src, 'kind': 'extract_variable', 'line': 1, 'column': 5, 'until_line': 2,
            'until_column': 6, 'tags': []}
    new = new_code_of(jedi.Script(src).extract_variable(1, 5, new_name='extracted_1', until_line=2, until_column=6))
    cerr = compiles(new)
    ctx.count('oracle-compile', (src, 1, 5), nontrivial=True, bucket='probe')
    if cerr is not None:
        fail(ctx, 'oracle-compile', 'extract_variable returned a program that does not compile', case,
             observed={'error': cerr, 'new_code': new})
    # one minimal input per root cause of known_findings.d/C06.json (compile, then equivalence)
    more = [
        ('def f(a):\n    return a * -a\ny = f(3)\n', 'extract_variable', (2, 11), (2, 17)),
        ('def f(a):\n    return -a + 1\ny = f(3)\n', 'extract_variable', (2, 11), (2, 17)),
        ('y = 7 - 2 - 1\n', 'extract_variable', (1, 8), (1, 13)),
        ('def f():\r\n    a = 1\r\n\r\n    b = a\r\n    return b\r\ny = f()\r\n', 'extract_function', (2, 4), (4, 9)),
        ('class A:\n    x = not 1\n    def f(self):\n        return 2 + self.x\ny = A().f()\n', 'inline', (2, 4), None),
        ('def f(a):\n    b = a + 1; c = b or b\n    return c\ny = f(1)\n', 'extract_variable', (2, 19), (2, 25)),
        ('def f():\n    a = 1\n    return a\ny = f()\n', 'extract_function', (2, 4), (2, 5)),
        ('def f():\n    a = 1\n    return a\ny = f()\n', 'extract_function', (2, 4), (2, 9)),
        ('def f():\n    a = 1\n    return a\ny = f()\n', 'extract_function', (3, 4), (4, 0)),
        ('a = 1\nx = a * 3\na -= 1\ny = x\n', 'inline', (2, 0), None),
    ]
    from jedi.api.exceptions import RefactoringError
    for src, kind, pos, until in more:
        case = {'source': src, 'kind': kind, 'line': pos[0], 'column': pos[1],
                'until_line': until[0] if until else None, 'until_column': until[1] if until else None,
                'tags': ['probe']}
        try:
            if kind == 'inline':
                ref = jedi.Script(src).inline(*pos)
            else:
                ref = getattr(jedi.Script(src), kind)(pos[0], pos[1], new_name='extracted_1',
                                                      until_line=until[0], until_column=until[1])
        except (RefactoringError, ValueError):
            ctx.count('oracle-compile', (src, kind, pos), nontrivial=False, bucket='probe/refused')
            continue
        except Exception as ex:
            if sandbox_quirk(ex):
                ctx.count('raised-sandbox', None, nontrivial=False)
                continue
            raise
        new = new_code_of(ref)
        ctx.count('oracle-compile', (src, kind, pos, until), nontrivial=True, bucket='probe')
        cerr = compiles(new)
        if cerr is not None:
            fail(ctx, 'oracle-compile', '%s returned a program that does not compile' % kind, case,
                 observed={'error': cerr, 'new_code': new})
            continue
        diff = compare_runs(refactor_gen.run_program(src), refactor_gen.run_program(new), {'extracted_1', 'x'})
        ctx.count('oracle-equiv', (src, kind, pos, until), nontrivial=True, bucket='probe')
        if diff is not None and (kind != 'extract_function' or until[0] == pos[0]):
            fail(ctx, 'oracle-equiv', '%s changed the behaviour of the program' % kind, case,
                 observed={'differences': diff, 'new_code': new})


FLOW_FAILED = set()     # (source, start, until) of flow cases the oracle has already reported
NEEDED_SEARCHED = []


def needed_failing_input(ctx, case):
    """failing-input search behind a disagreement on the handed-back names: the property itself (execute the old and
    the new program) on that program and selection with further argument tuples; at most a few per run"""
    if case.get('entry') is None or len(NEEDED_SEARCHED) >= 4:
        return
    k = (case['source'], (case['line'], case['column']), (case['until_line'], case['until_column']))
    if k in FLOW_FAILED or k in NEEDED_SEARCHED:
        return
    NEEDED_SEARCHED.append(k)
    import parso
    fname = case['entry'].split('.')[-1].rstrip('()')
    fn = [f for f in _all_funcdefs(parso.parse(case['source'])) if f.name.value == fname]
    if not fn:
        return
    params = [p.name.value for p in fn[0].get_params() if p.name.value != 'self']
    entry = {'params': [p for p in params if p != 't'], 'tuples': [p for p in params if p == 't']}
    args = list(case.get('args') or [])
    for a in refactor_gen.flow_arguments(ctx.subrng('needed-search'), entry, 24):
        if a not in args:
            args.append(a)
    sel = {'start': [case['line'], case['column']], 'until': [case['until_line'], case['until_column']]}
    flow_judge(ctx, flow_one(case['source'], case['entry'], sel, args),
               origin='failing-input search behind correspondence:needed')


def _all_funcdefs(node):
    for c in getattr(node, 'children', []):
        if c.type == 'funcdef':
            yield c
        yield from _all_funcdefs(c)


def compare(ctx, reqs, pending, answers):
    for (kind, case, impl), req, ans in zip(pending, reqs, answers):
        key = json.dumps(req, sort_keys=True)
        if kind == 'inline':
            model = {'error': ans['error']} if 'error' in ans else {'map': sorted(ans['map'])}
            ctx.count('inline', key, nontrivial='map' in model,
                      bucket='ok' if 'map' in model else model['error'][:40])
        elif kind == 'inputs':
            model = ans if 'error' in ans else {'inputs': ans['inputs'], 'outputs': ans['outputs']}
            reads = [o for o in req['occs'] if not o['is_def'] or o['aug']]
            names = {o['value'] for o in reads}
            mixed = any(len({o['outer'] for o in reads if o['value'] == n}) > 1 for n in names)
            ctx.count('inputs', key, nontrivial=any(o['outer'] for o in reads),
                      bucket='verdicts-of-one-name-differ' if mixed else 'aug-target' if
                      any(o['aug'] for o in req['occs']) else 'plain')
        elif kind == 'needed':
            model = ans if 'error' in ans else {'needed': ans['needed'], 'names': ans['names']}
            b = needed_bucket(req, ans)
            ctx.count('needed', key, nontrivial=b.startswith('read'), bucket=b)
            if 'error' not in ans:
                # the specification on this input: every candidate that is read behind the selection is handed back
                # (and the expression of extract_function returns it)
                later = set(ans['reads_later'])
                lost = [v for v in req['rv'] if v in later and (v not in ans['needed'] or v not in ans['returned'])]
                if lost:
                    ctx.tie_broken('correspondence:needed-spec', short(
                        {'lost': lost, 'needed': ans['needed'], 'returned': ans['returned'], 'case': case}, 2500))
            if model != impl:
                ctx.tie_broken('correspondence:needed', short(
                    {'candidates': req['rv'], 'model_needed': model.get('needed'), 'impl_needed': impl['needed'],
                     'names_agree': model.get('names') == impl['names'], 'case': case}, 2500))
                needed_failing_input(ctx, case)
            continue
        elif kind == 'nonextractable':
            model = ans if 'error' in ans else {'refused': ans['refused']}
            words = re.findall(r'"v": "(break|continue|return|yield)"|"k": "(loop|scope)"', key)
            flat = sorted({a or b for a, b in words})
            ctx.count('nonextractable', key, nontrivial=bool(flat), bucket='+'.join(flat) or 'plain')
            if 'error' not in ans and ans['refused'] != ans['loose']:
                # the translated function disagrees with the specification on this selection
                ctx.tie_broken('correspondence:nonextractable-spec', short({'case': case, 'model': ans}, 2500))
        else:
            if 'error' in ans:
                model = ans
            else:
                model = sorted(ans['map'])
            ctx.count('replace', key, nontrivial=True, bucket='same' if req['same'] else 'other-leaf')
        if model != impl:
            ctx.tie_broken('correspondence:' + kind, short({'case': case, 'model': model, 'impl': impl}, 2500))


def run(ctx):
    load_own_known(ctx, 'C06')
    reqs, pending = [], []
    import time
    job = FlowJob(ctx)
    t0 = time.time()
    fixed_probes(ctx)
    flow_corpus(ctx, (reqs, pending))
    flow_in_process(ctx, (reqs, pending))
    stream_programs(ctx, reqs, pending)
    ctx.notes.append('in-process streams (probes, corpus, generated programs): %.0f s' % (time.time() - t0))
    job.finish(ctx)
    if ctx.model_ok:
        # one driver run: the table first, then the captured inline / _replace calls
        answers = common.run_driver_parallel('C06', [{'op': 'table'}] + reqs)
        stream_parens(ctx, answers[0])
        compare(ctx, reqs, pending, answers[1:])
    else:
        ctx.notes.append('model did not build: correspondence skipped, oracle only')
    ctx.obligations['assumptions'] = [
        "the precedence table is validated row by row against CPython's parser (ast.dump of the plain vs the "
        'parenthesised substitution) on every run; rows outside the table (f-strings, await, yield, walrus, '
        'decorators) are not covered',
        'get_references decides which names `inline` receives; the model starts from those names (captured)',
        '_find_nodes is not modelled: compile + execution oracle only',
        '_check_for_non_extractables: the model works on a forest abstraction of the parso nodes (leaf values, loop / '
        'scope / other nodes; node types of the loop and scope branches compared with the python grammar names by the '
        'correspondence stream); that a refused / accepted selection makes extract_function as a whole refuse / return a '
        'compilable program is checked by the oracle only',
        'extract_function input analysis: the loop of _find_inputs_and_outputs is modelled and proved complete / sound / '
        'duplicate-free relative to the per-occurrence verdict of the real lookup (context.goto + _is_name_input, flow '
        'analysis), which is not modelled; whether those verdicts are right is decided by the execution oracle of the '
        'flow stream only',
        'extract_function output analysis: _find_non_global_names / _find_needed_output_variables are modelled on a forest '
        'abstraction of the parso nodes (name leaves, `.name` trailers, funcdef / lambdef header and body; node types '
        'compared with the python grammar names by the correspondence stream `needed`) and proved complete / sound / '
        'duplicate-free relative to the names READ textually behind the selection among the later siblings; that this is '
        'the right set (uses after the enclosing statement, in the next loop iteration, by a closure defined in front of '
        'the selection whose captured name the selection rebinds - generated programs never rebind a captured name) is '
        'decided by the execution oracle only',
        'behaviour = final module globals of deterministic, builtin-free, exception-free generated programs; for '
        'the flow stream: the return value of the entry function on every drawn argument tuple',
    ]


def replay(ctx, payload):
    import jedi
    load_own_known(ctx, 'C06')
    inp = payload['input']
    src = inp['source']
    print(src)
    if inp.get('entry') is not None:
        sel = {'start': [inp['line'], inp['column']], 'until': [inp['until_line'], inp['until_column']]}
        args = inp.get('args') or refactor_gen.flow_arguments(ctx.rng, {'params': ['p'], 'tuples': []}, 4)
        r = flow_one(src, inp['entry'], sel, args)
        print('--- request: extract_function(%d, %d, new_name=\'extracted_1\', until_line=%d, until_column=%d); '
              'entry %s, arguments %s' % (inp['line'], inp['column'], inp['until_line'], inp['until_column'],
                                          inp['entry'], args))
        print('--- status:', r.get('status'), r.get('error', ''))
        if r.get('new_code'):
            print('--- new code\n' + r['new_code'])
        for f in r.get('failures', []):
            print('arguments %s: old %s  new %s' % (f['args'], f['old_outcome'], f['new_outcome']))
        print('reproduced:', 'yes' if r.get('status') in ('differs', 'no-compile') else 'no')
        print('observed at record time:', short(payload.get('observed'), 800))
        return 0
    s = jedi.Script(src)
    kind = inp['kind'].split('+')[0]
    if kind == 'inline':
        ref = s.inline(inp['line'], inp['column'])
    else:
        kw = {}
        if inp.get('until_line') is not None:
            kw = {'until_line': inp['until_line'], 'until_column': inp['until_column']}
        ref = getattr(s, kind)(inp['line'], inp['column'], new_name='extracted_1', **kw)
    new = new_code_of(ref)
    print('--- new code\n' + new)
    print('compiles:', compiles(new) or 'yes')
    print('old run:', refactor_gen.run_program(src)[:1], 'new run:', refactor_gen.run_program(new)[:1])
    print('differences:', compare_runs(refactor_gen.run_program(src), refactor_gen.run_program(new), {'extracted_1'}))
    print('observed at record time:', short(payload.get('observed'), 800))
    return 0

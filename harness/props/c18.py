"""C18 - get_context, parent() and full_name describe the lexical nesting.

Streams
  table      the position table the Lean model consumes (derived from the abstract program by
             harness/gen/nesting.py) vs the same table recomputed from the parso tree
  context    Script.get_context(line, column) at EVERY position of every generated program
             (all columns of all lines: code, indentation, blank lines, comments, end of file)
             vs Model.Nesting.getContext
  chain      Name.parent() iterated from every definition of get_names(all_scopes=True,
             definitions=True) vs Model.Nesting.parentChain
  fullname   .full_name of those definitions and of every name returned by get_context
             vs Model.Nesting.fullNameOfLeaf / fullNameOfScope (with BaseName._mapping from Gen.C18)
  qualname   the Python-side spec of the model (qualname with <locals>) vs CPython: __qualname__ of
             the executed objects and co_qualname of every compiled code object
  corpus     the same context / chain / fullname comparison on real source files (tables from parso)
  oracle-*   the property itself, independent of the model:
             oracle-context   python `tokenize` + `ast`: at every character of every code token the
                              answer is the innermost def/class whose body contains it (header tokens:
                              that def/class or the one around it; decorators: the one around)
             oracle-chain     parent() chain (lambdas ignored) = ast ancestors def/class, then module
             fixed-probe      exact answers on the inputs of the repaired findings (async def body columns,
                              lambda directly in a class body): regression inputs, see FIXED_PROBES
             oracle-fullname  the program is saved in a scratch project and imported: for every
                              def/class reachable through classes only,
                              full_name == obj.__module__ + '.' + obj.__qualname__
                              on four routes to the same definition: get_names (TreeNameDefinition),
                              infer() on its name, the names parent() hands out along every chain and the
                              names get_context returns (ValueNames)
  oracle-fullname-ref / member-fullname / qualname/members   definitions reached through REFERENCES: generated
             class hierarchies (gen/c18_members.py: nested classes, single / multiple inheritance, overriding,
             diamonds; receivers = instances, call results and the classes themselves) with `r = receiver.attr`
             lines; Script.infer and Script.goto on the attribute hand out Names of def/class statements somewhere
             along the receiver's mro.  Oracle (stream oracle-fullname, routes ref-infer / ref-goto): the project is
             imported and every such Name must carry __module__ + '.' + __qualname__ of the object the statement it
             sits on created - the class that HOLDS the definition, not the class it was fetched through.
             Correspondence: Model/Members (py__mro__ depth-first listing, first filter wins, qualified names of the
             wrapped MethodValue) via driver op `members`; its Python-side spec defQualname vs CPython
  fullname-collision  coverage of the part of the domain where the module's dotted path and the
             qualname share spellings (gen/c18_layouts.py): the analysed file is f.py, K/f.py, f/f/f.py,
             K/__init__.py ... (regular and namespace parents, depth <= 3) and its functions, classes,
             methods and nested classes are called like the last / first component of that path; a
             deterministic family (every path shape x three programs) plus random programs whose
             functions and classes share a small pool of spellings
"""
import ast
import importlib
import io
import os
import shutil
import sys
import tokenize

import common
from common import short
from gen import nesting as G
from gen import c18_layouts as GL
from gen import c18_members as GM

MODELS = ['Nesting', 'Members']
MODEL_TARGETS = ['JediModel.Model.Nesting', 'JediModel.Model.Members', 'JediModel.Lemmas.Nesting', 'JediModel.Gen.C18']
LEAN_TARGETS = ['JediModel.Props.C18', 'JediModel.Drivers.C18']
MANIFEST = dict(
    text='Theorems over Model/Nesting (the flat scope table of Model/Scopes extended with parso leaf and node '
         'positions; jedi side = transcription of Script.get_context, TreeContextMixin.create_context/create_value, '
         'FunctionValue.from_context, BaseName.parent, BaseName.full_name and the get_qualified_names family; Python '
         'side = positional containment in def/class statements and __qualname__): get_context is the innermost '
         'containing def/class for positions on code under one explicit hypothesis (the statement of no enclosing '
         'definition - for async def the async keyword - starts at or right of the column), lambdas and comprehensions '
         'in class bodies included; the parent() chain of a definition is, lambdas aside, exactly its enclosing '
         'defs/classes then the module (exactly that when its first named context is not a lambda; excluded: assigned '
         'names below a lambda in a def/class header); full_name = module path ++ __qualname__ when all ancestors are classes and the '
         'module name is not a key of BaseName._mapping, and never contains <locals>. Kernel-checked counter-witnesses '
         'for each hypothesis (replayed on the real code as known findings). Tie: exact-equality correspondence of '
         'get_context at every position, parent() chains and full_name with the model on generated programs and on '
         'real source files; the Python-side spec is validated against CPython by executing/compiling the programs. '
         'full_name: the operand order of the final return of get_qualified_names is read from the source '
         '(Gen.C18.moduleJoin; any further statement in that function breaks the tie), module_join_is_concat shows it '
         'is plain concatenation, full_name_eq_qualname_partial / full_name_of_context_eq_qualname_partial are stated '
         'over it for both kinds of names (TreeNameDefinition, ValueName), full_name_keeps_repeated_components is the '
         'kernel-checked case of a module K.K whose class, method and nested class are all called K; projects whose '
         'module path collides with the definition names at every depth are generated, imported with CPython and '
         'compared on four routes (get_names, infer, parent(), get_context). Members reached through references: '
         'Model/Members transcribes ClassMixin.py__mro__ (depth-first listing; shape read by the translator: '
         'Gen.C18.mroShape), the first-filter-wins lookup and the qualified names of the value found (a BoundMethod has '
         'no get_qualified_names of its own - Gen.C18.boundMethodOwnQual, any such method in BoundMethod / FunctionMixin '
         '/ ValueWrapper breaks the tie - so the wrapped MethodValue answers with the class whose body holds the def); '
         'member_lookup_in_mro, member_own_body_first, member_full_name_eq_qualname_partial (full_name = module path ++ '
         '__qualname__ of the object bound in the defining class, for every hierarchy, receiver and name), '
         'member_full_name_same_definition, member_lookup_class_witness (kernel-checked: naming the class the method was '
         'looked up through gives mod.U.f for the def whose __qualname__ is S.B.f), member_source_shapes. Tie: '
         'full_name of Script.infer() on `receiver.attr` vs the model on generated class hierarchies (nested classes, '
         'multiple inheritance, overriding, diamonds; instances, call results and classes as receivers); oracle: every '
         'Name infer()/goto() hand out for such a reference vs __module__ + __qualname__ of the imported object.',
    note='Modelled not verified: parso (tokeniser/parser; get_leaf_for_position = first leaf whose end is not before the '
         'position), the printer and table builder of harness/gen/nesting.py (cross-checked against the parso tree on '
         'every program), module string_names taken as a parameter (validated by importing the scratch project). '
         'Imports, star-imports, stubs and compiled names are outside the model.',
    technique='Lean 4 proof over hand-written models (Nesting, Members) + differential correspondence + ast/execution oracle',
    design='5.C18')

SCRATCH = os.environ.get('VERIF_SCRATCH_C18', '/tmp/scratch-c18')
HOW = 'jedi.Script(source, path=<root>/<file>, project=jedi.Project(<root>)); see ./check C18 --replay'

# (layout name, relative file, other files, dotted module path)
LAYOUTS = [
    ('flat', 'mod_a.py', [], ['mod_a']),
    ('package', 'pkg/sub/mod_b.py', ['pkg/__init__.py', 'pkg/sub/__init__.py'], ['pkg', 'sub', 'mod_b']),
    ('namespace', 'nsdir/mod_c.py', [], ['nsdir', 'mod_c']),
    ('init', 'pk/__init__.py', [], ['pk']),
    ('mapped', 'macpath.py', [], ['macpath']),
]
LAYOUT = {l[0]: l for l in LAYOUTS}


def resolve_layout(layout):
    """(relative file, other files, dotted module path) of a named layout or of a generated one
    (gen/c18_layouts.py: a dict with rel / extra / dotted)"""
    if isinstance(layout, dict):
        return layout['rel'], list(layout['extra']), list(layout['dotted'])
    _, rel, extra, dotted = LAYOUT[layout]
    return rel, extra, dotted


def layout_key(layout):
    return layout if isinstance(layout, str) else layout['rel'] + '|' + ','.join(layout['extra'])


# ---------------------------------------------------------------------------- python-side truth

def code_tokens(src):
    """(line, col_start, col_end) of every token that is code (tokenize; no NEWLINE/NL/COMMENT/
    INDENT/DEDENT/ENDMARKER)"""
    out = []
    skip = {tokenize.NEWLINE, tokenize.NL, tokenize.COMMENT, tokenize.INDENT, tokenize.DEDENT,
            tokenize.ENDMARKER, tokenize.ENCODING}
    for t in tokenize.generate_tokens(io.StringIO(src).readline):
        if t.type in skip or t.start[0] != t.end[0]:
            continue
        out.append((t.start[0], t.start[1], t.end[1]))
    return out


class _Defs(ast.NodeVisitor):
    """def/class nodes with ancestors; header and body ranges"""

    def __init__(self):
        self.defs = []      # dict(node, parents=[idx..] innermost last)
        self.stack = []
        self.names = []     # (line, col, kind, parents) of definition names found by ast

    def _def(self, node):
        idx = len(self.defs)
        first = node.body[0]
        bl, bc = first.lineno, first.col_offset
        for d in getattr(first, 'decorator_list', []):
            if (d.lineno, d.col_offset) < (bl, bc):
                bl, bc = d.lineno, d.col_offset - 1      # the '@'
        self.defs.append({'node': node, 'parents': list(self.stack), 'start': (node.lineno, node.col_offset),
                          'body': (bl, bc), 'end': (node.end_lineno, node.end_col_offset),
                          'kind': 'class' if isinstance(node, ast.ClassDef) else 'function',
                          'async': isinstance(node, ast.AsyncFunctionDef), 'name': node.name})
        for d in node.decorator_list:
            self.visit(d)
        self.stack.append(idx)
        for f in node._fields:
            if f == 'decorator_list':
                continue
            v = getattr(node, f)
            for x in (v if isinstance(v, list) else [v]):
                if isinstance(x, ast.AST):
                    self.visit(x)
        self.stack.pop()

    visit_FunctionDef = visit_AsyncFunctionDef = visit_ClassDef = _def


def py_defs(src):
    v = _Defs()
    v.visit(ast.parse(src))
    return v.defs


def expected_context(defs, pos):
    """(exact, acceptable): exact = index of the innermost def/class whose BODY contains pos (None =
    module); acceptable = set of answers the property allows (header tokens: also the def itself)"""
    inner = None
    for i, d in enumerate(defs):
        if d['body'] <= pos < d['end']:
            if inner is None or defs[inner]['body'] < d['body']:
                inner = i
    acc = {inner}
    for i, d in enumerate(defs):
        if d['start'] <= pos < d['body'] and (d['parents'][-1] if d['parents'] else None) == inner:
            acc.add(i)
    return inner, acc


def co_qualnames(src):
    """{(name, first line): co_qualname} of every code object of the compiled module"""
    out = {}

    def walk(co):
        for c in co.co_consts:
            if hasattr(c, 'co_code'):
                out.setdefault((c.co_name, c.co_firstlineno), c.co_qualname)
                walk(c)
    walk(compile(src, '<c18>', 'exec'))
    return out


def import_objects(root, rel, dotted, defs):
    """imports the module the way Python does (sys.path = [root]); returns (module name, {def idx:
    'module.qualname'}) for defs reachable through classes only"""
    name = '.'.join(dotted)
    saved = dict(sys.modules)
    sys.path.insert(0, root)
    importlib.invalidate_caches()
    try:
        try:
            mod = importlib.import_module(name)
        except Exception as e:     # the generated programs are executable; a failure is ours
            return None, {'error': '%s: %s' % (type(e).__name__, e)}
        out = {}
        for i, d in enumerate(defs):
            chain = [defs[j] for j in d['parents']] + [d]
            if not all(c['kind'] == 'class' for c in chain[:-1]):
                continue
            obj = mod
            for c in chain:
                obj = obj.__dict__.get(c['name']) if hasattr(obj, '__dict__') else None
                if obj is None:
                    break
            if obj is None or not hasattr(obj, '__qualname__'):
                continue
            # the object found by name must be this very statement (same first line)
            line = getattr(getattr(obj, '__code__', None), 'co_firstlineno', None)
            first = min([d['start'][0]] + [x.lineno for x in d['node'].decorator_list])
            if line is not None and line != first:
                continue
            if line is None and d['kind'] == 'class':
                # classes: compare through a method-less marker - the qualname is what matters; two
                # classes of the same name at the same level have the same qualname anyway
                pass
            out[i] = obj.__module__ + '.' + obj.__qualname__
        return mod.__name__, out
    finally:
        sys.path.remove(root)
        for k in list(sys.modules):
            if k not in saved:
                del sys.modules[k]


# ---------------------------------------------------------------------------- shapes of known findings

def lambda_in_header(table, leaf_idx):
    """the name sits below a lambda (comprehensions in between allowed) whose parent_scope is a def/class
    in whose header (default, annotation, base) the lambda stands = not ChainHyp"""
    scopes, leaves = table['scopes'], table['leaves']
    s = leaves[leaf_idx][4]
    seen = 0
    while scopes[s][0] in (3, 4) and seen < 100:
        seen += 1
        if scopes[s][0] == 3:
            t = scopes[s][1]
            if scopes[t][0] in (1, 2) and tuple(scopes[s][2]) < tuple(scopes[t][3]):
                return True
        s = scopes[s][1]
    return False


def context_shape(table, defs, pos, inner):
    """syntactic class of a failing position = which hypothesis of context_is_innermost_body_partial
    it violates (d['start'] is the start of the statement: the `async` keyword of an async def)"""
    if inner is not None:
        chain = defs[inner]['parents'] + [inner]
        for j in reversed(chain):
            d = defs[j]
            if pos[1] <= d['start'][1]:
                return 'continuation-line-not-right-of-enclosing-def'
    return 'unclassified'


# ---------------------------------------------------------------------------- per program

def scope_index_of(table, d):
    """scope index of a classes.Name that names a context"""
    if d is None:
        return None
    if d.type == 'module':
        return 0
    for i, s in enumerate(table['scopes']):
        if s[6] >= 0:
            l = table['leaves'][s[6]]
            if (l[0], l[1]) == (d.line, d.column) and s[7] == d.name:
                return i
        elif s[0] == 3 and tuple(s[2]) == (d.line, d.column) and d.name == '<lambda>':
            return i
    return -1


def all_positions(src):
    lines = src.split('\n')
    return [(li, c) for li, l in enumerate(lines, 1) for c in range(len(l) + 1)]


def jedi_side(src, path, root, table, positions):
    import jedi
    script = jedi.Script(src, path=path, project=jedi.Project(root))
    out = {'context': [], 'scopefull': {}, 'defs': {}, 'raised': []}
    for (l, c) in positions:
        try:
            d = script.get_context(l, c)
        except ValueError:
            out['context'].append('ValueError')
            continue
        except Exception as e:
            cls, site = common.exc_site(e)
            out['raised'].append(('get_context', l, c, '%s@%s' % (cls, site)))
            out['context'].append('raised')
            continue
        i = scope_index_of(table, d)
        out['context'].append(i)
        if i is not None and i >= 0 and str(i) not in out['scopefull']:
            out['scopefull'][str(i)] = d.full_name
            # contract of the result: name/type of the scope
            s = table['scopes'][i]
            want = ('module' if i == 0 else 'class' if s[0] == 2 else 'function')
            if d.type != want:
                out['raised'].append(('type', l, c, '%s != %s' % (d.type, want)))
    pos2leaf = {(l[0], l[1]): i for i, l in enumerate(table['leaves'])}
    try:
        names = script.get_names(all_scopes=True, definitions=True)
    except Exception as e:
        cls, site = common.exc_site(e)
        out['raised'].append(('get_names', 0, 0, '%s@%s' % (cls, site)))
        names = []
    for n in names:
        li = pos2leaf.get((n.line, n.column))
        if li is None:
            continue
        chain = []
        p = n
        try:
            while len(chain) < 60:
                p = p.parent()
                if p is None:
                    break
                chain.append([scope_index_of(table, p), p.type, p.name, p.line, p.full_name])
            full = n.full_name
        except Exception as e:
            cls, site = common.exc_site(e)
            out['raised'].append(('parent', n.line, n.column, '%s@%s' % (cls, site)))
            out['defs'][str(li)] = {'raised': True}
            continue
        out['defs'][str(li)] = {'chain': chain, 'full': full, 'type': n.type, 'name': n.name,
                                'line': n.line, 'column': n.column}
        if n.type in ('function', 'class') and table['leaves'][li][6] == G.ROLE['def']:
            # the same definition reached through infer() on its own name (a ValueName, not the
            # TreeNameDefinition of get_names): results that sit on this very name
            try:
                res = script.infer(n.line, n.column)
                out['defs'][str(li)]['infer'] = [r.full_name for r in res
                                                 if (r.line, r.column) == (n.line, n.column)
                                                 and r.module_path is not None and str(r.module_path) == str(path)]
            except Exception as e:
                cls, site = common.exc_site(e)
                out['raised'].append(('infer', n.line, n.column, '%s@%s' % (cls, site)))
    return out


def analyse(item):
    """pure (picklable) analysis of one program on the real code + CPython. item = dict(prog=,
    layout=, tag=) or dict(file=, tag=) for corpus files"""
    layout = item.get('layout', 'flat')
    rel, extra, dotted = resolve_layout(layout)
    if 'prog' in item:
        src, table = G.render(item['prog'])
        ptable = G.table_from_parso(src)
    else:
        with open(item['file'], encoding='utf-8') as f:
            src = f.read()
        table = ptable = G.table_from_parso(src)
    root = os.path.join(SCRATCH, 'run-%d' % os.getpid())
    shutil.rmtree(root, ignore_errors=True)
    try:
        for e in extra + [rel]:
            p = os.path.join(root, e)
            os.makedirs(os.path.dirname(p), exist_ok=True)
            with open(p, 'w', encoding='utf-8') as f:
                f.write(src if e == rel else '')
        path = os.path.join(root, rel)
        positions = all_positions(src)
        if item.get('sample'):
            import random
            rng = random.Random(item['sample'])
            positions = sorted(rng.sample(positions, min(len(positions), 400)))
        out = {'src': src, 'table': table, 'table_ok': table == ptable, 'layout': layout, 'dotted': dotted,
               'positions': positions, 'tag': item.get('tag', ''), 'fails': [], 'judged': {}, 'notes': []}
        out['jedi'] = jedi_side(src, path, root, table, positions)
        if 'prog' not in item:
            return out
        # ------------------------------------------------ direct oracle (independent of the model)
        J = out['jedi']
        defs = py_defs(src)
        # ast def index <-> table scope index, through the position of the name token
        ast2scope = {}
        for i, d in enumerate(defs):
            for si, s in enumerate(table['scopes']):
                if s[0] in (1, 2) and s[7] == d['name'] and s[2][0] == d['start'][0] and \
                        s[2][1] == d['start'][1] + (6 if d['async'] else 0):
                    ast2scope[i] = si
        if len(ast2scope) != len(defs):
            out['notes'].append('ast/table definition count mismatch: oracle skipped for one program')
            return out
        ast2scope[None] = 0
        pidx = {p: k for k, p in enumerate(positions)}
        nctx = 0
        for (l, c0, c1) in code_tokens(src):
            for c in range(c0, c1):
                k = pidx.get((l, c))
                if k is None:
                    continue
                got = J['context'][k]
                inner, acc = expected_context(defs, (l, c))
                nctx += 1
                if got in ('raised', 'ValueError') or got not in {ast2scope[a] for a in acc}:
                    sh = context_shape(table, defs, (l, c), inner)
                    out['fails'].append(('oracle-context', 'get_context is not the innermost def/class containing a position on code',
                                         {'source': src, 'line': l, 'column': c, 'layout': layout, 'shape': sh},
                                         {'innermost': describe(table, ast2scope[inner])},
                                         {'get_context': describe(table, got), 'shape': sh}))
        out['judged']['oracle-context'] = nctx
        # parent chains
        byname = {}
        v = _NameFinder(defs)
        v.visit(ast.parse(src))
        for (l, c), parents in v.names.items():
            byname[(l, c)] = parents
        nch = 0
        leaves = table['leaves']
        for li, dinfo in J['defs'].items():
            lf = leaves[int(li)]
            parents = byname.get((lf[0], lf[1]))
            if parents is not None and dinfo.get('raised'):
                # the generated programs stay away from the sandbox's typeshed hole: an exception here
                # is a chain that is not delivered
                out['fails'].append(('oracle-chain', 'parent() / full_name raised on a definition of a generated program',
                                     {'source': src, 'line': lf[0], 'column': lf[1], 'layout': layout, 'shape': 'raised'},
                                     None, {'raised': [r for r in J['raised'] if r[1] == lf[0] and r[2] == lf[1]]}))
                continue
            if parents is None:
                continue
            nch += 1
            want = [ast2scope[j] for j in reversed(parents)] + [0]
            got = [x[0] for x in dinfo['chain'] if x[2] != '<lambda>']
            if got != want:
                sh = 'lambda-in-definition-header' if lambda_in_header(table, int(li)) else 'unclassified'
                out['fails'].append(('oracle-chain', 'parent() chain is not the lexically enclosing defs/classes then the module',
                                     {'source': src, 'line': lf[0], 'column': lf[1], 'layout': layout, 'shape': sh},
                                     [describe(table, s) for s in want],
                                     {'chain': [describe(table, s) for s in got], 'shape': sh}))
        out['judged']['oracle-chain'] = nch
        # full_name vs run-time qualname
        modname, objs = import_objects(root, rel, dotted, defs)
        if modname is None:
            out['notes'].append('scratch module failed to import (%s): qualname oracle skipped for one program'
                                % objs.get('error'))
            return out
        out['modname'] = modname
        out['runtime'] = {str(ast2scope[i]): q for i, q in objs.items()}
        cq = co_qualnames(src)
        out['coqual'] = {}
        for i, d in enumerate(defs):
            first = min([d['start'][0]] + [x.lineno for x in d['node'].decorator_list])
            q = cq.get((d['name'], first))
            if q is not None:
                out['coqual'][str(ast2scope[i])] = q
        nfn = 0
        collide = 0
        sh = 'module-name-in-mapping-table' if layout == 'mapped' else 'unclassified'

        def judge(route, lf, got, q):
            if got != q:
                out['fails'].append(('oracle-fullname', 'full_name differs from __module__ + "." + __qualname__',
                                     {'source': src, 'line': lf[0], 'column': lf[1], 'layout': layout, 'shape': sh,
                                      'route': route},
                                     q, {'full_name': got, 'shape': sh, 'route': route}))
        runtime_of_scope = {ast2scope[i]: q for i, q in objs.items()}
        for i, q in objs.items():
            s = table['scopes'][ast2scope[i]]
            dinfo = J['defs'].get(str(s[6]))
            if dinfo is None or dinfo.get('raised'):
                continue
            nfn += 1
            lf = leaves[s[6]]
            # does a component of the module path reappear in the qualname part?
            if set(q[len(modname) + 1:].split('.')) & set(dotted):
                collide += 1
            # route 1: the definition as listed by get_names (TreeNameDefinition)
            judge('get_names', lf, dinfo['full'], q)
            # route 2: infer() on the name of the definition (ValueName)
            for got in dinfo.get('infer', []):
                nfn += 1
                judge('infer', lf, got, q)
        # route 3: the def/class names that parent() hands out along the chain of ANY definition
        # (parameters, assigned names, ... included)
        seen = set()
        for li, dinfo in J['defs'].items():
            for el in dinfo.get('chain', []):
                sc, full = el[0], el[4]
                if sc in runtime_of_scope and (sc, full) not in seen:
                    seen.add((sc, full))
                    nfn += 1
                    judge('parent', leaves[table['scopes'][sc][6]], full, runtime_of_scope[sc])
        # route 4: the names get_context returns
        for sc, full in J['scopefull'].items():
            if int(sc) in runtime_of_scope:
                nfn += 1
                judge('get_context', leaves[table['scopes'][int(sc)][6]], full, runtime_of_scope[int(sc)])
        out['judged']['oracle-fullname'] = nfn
        out['collide'] = collide
        return out
    finally:
        shutil.rmtree(root, ignore_errors=True)


# ---------------------------------------------------------------------------- members through references

def name_positions(src, root, rel, dotted):
    """{(line, column of the name token): 'module.qualname'} of every def/class statement reachable through
    classes only: the program is imported, the objects are the executed ones"""
    defs = py_defs(src)
    modname, objs = import_objects(root, rel, dotted, defs)
    if modname is None:
        return None, objs
    out = {}
    for i, d in enumerate(defs):
        if i in objs:
            col = d['start'][1] + (6 if d['async'] else 0) + (6 if d['kind'] == 'class' else 4)
            out[(d['start'][0], col)] = objs[i]
    return modname, out


def resolve_refs(script, path, refs):
    """Script.infer / Script.goto on the attribute of every reference: the Names that sit on a def/class
    statement of this file"""
    out = []
    raised = []
    for r in refs:
        res = {}
        for route in ('infer', 'goto'):
            try:
                names = getattr(script, route)(r['line'], r['column'])
                res[route] = [[n.full_name, n.type, n.line, n.column] for n in names
                              if n.type in ('function', 'class') and n.module_path is not None
                              and str(n.module_path) == str(path) and n.line is not None]
            except Exception as e:
                cls, site = common.exc_site(e)
                raised.append((route, r['line'], r['column'], '%s@%s' % (cls, site)))
                res[route] = None
        out.append(res)
    return out, raised


def judge_refs(src, layout, refs, resolved, bypos):
    """the property on every Name handed out for a reference: it describes a def/class statement at module or
    class level of this file (the statement whose name token it sits on) - its full_name must be the
    __module__ + '.' + __qualname__ of the object that statement created"""
    fails, n = [], 0
    for r, res in zip(refs, resolved):
        for route in ('infer', 'goto'):
            for full, typ, line, col in (res[route] or []):
                want = bypos.get((line, col))
                if want is None:
                    continue        # not a definition reachable through classes only
                n += 1
                if full != want:
                    fails.append(('oracle-fullname', 'full_name of the definition a reference resolves to differs from '
                                  '__module__ + "." + __qualname__',
                                  {'source': src, 'line': r['line'], 'column': r['column'], 'layout': layout,
                                   'shape': 'member-through-reference', 'route': 'ref-' + route},
                                  want, {'full_name': full, 'definition': [typ, line, col], 'route': 'ref-' + route,
                                         'shape': 'member-through-reference'}))
    return fails, n


def analyse_members(item):
    """one class hierarchy with references (gen/c18_members.py) on the real code + CPython"""
    import jedi
    layout = item.get('layout', 'flat')
    rel, extra, dotted = resolve_layout(layout)
    src, table = GM.render(item['hier'])
    root = os.path.join(SCRATCH, 'mrun-%d' % os.getpid())
    shutil.rmtree(root, ignore_errors=True)
    try:
        for e in extra + [rel]:
            p = os.path.join(root, e)
            os.makedirs(os.path.dirname(p), exist_ok=True)
            with open(p, 'w', encoding='utf-8') as f:
                f.write(src if e == rel else '')
        path = os.path.join(root, rel)
        out = {'src': src, 'table': table, 'layout': layout, 'dotted': dotted, 'tag': item.get('tag', ''),
               'fails': [], 'judged': 0, 'notes': []}
        script = jedi.Script(src, path=path, project=jedi.Project(root))
        out['resolved'], out['raised'] = resolve_refs(script, path, table['refs'])
        modname, bypos = name_positions(src, root, rel, dotted)
        if modname is None:
            out['notes'].append('scratch module failed to import (%s): member oracle skipped for one program'
                                % bypos.get('error'))
            return out
        out['modname'] = modname
        out['bypos'] = [[l, c, q] for (l, c), q in sorted(bypos.items())]
        out['fails'], out['judged'] = judge_refs(src, layout, table['refs'], out['resolved'], bypos)
        # what CPython fetches for the same expressions (coverage: is the member inherited?)
        ns = {'__name__': modname}
        exec(compile(src, path, 'exec'), ns)
        out['runtime'] = []
        for k, r in enumerate(table['refs']):
            obj = ns['r%d' % k]
            obj = getattr(obj, '__func__', obj)
            out['runtime'].append(modname + '.' + obj.__qualname__)
        return out
    finally:
        shutil.rmtree(root, ignore_errors=True)


def member_items(ctx, rng, n_random):
    items = []
    lays = ['flat', 'package', 'namespace', 'init']
    for k, h in enumerate(GM.FIXED):
        for lay in ('flat', lays[1 + (int(ctx.seed) + k) % 3]):
            items.append({'hier': h, 'layout': lay, 'tag': 'members-fixed'})
    for i in range(n_random):
        h = GM.gen_hierarchy(rng, n_classes=rng.choice([4, 6, 8]), n_queries=rng.choice([6, 10]))
        items.append({'hier': h, 'layout': lays[i % 4] if i % 3 == 0 else 'flat', 'tag': 'members-random'})
    return items


def absorb_members(ctx, out, reqs, cases):
    src, table = out['src'], out['table']
    for n in out['notes']:
        ctx.notes.append(n)
    for what, l, c, b in out['raised']:
        ctx.count('raised', (src, what, l, c), nontrivial=False, bucket=b)
    paths = ['.'.join(c['path']) for c in table['classes']]
    for k, r in enumerate(table['refs']):
        rt = out.get('runtime', [None] * len(table['refs']))[k]
        own = rt is not None and rt == '%s.%s.%s' % (out['modname'], paths[r['cls']], r['attr'])
        ctx.count('oracle-fullname-ref', (src, k), nontrivial=rt is not None and not own,
                  bucket='%s: %s' % (r['form'], 'no runtime object' if rt is None else
                                     'defined in the receiver\'s own class' if own else 'inherited'),
                  sample={'source': src, 'line': r['line'], 'column': r['column']})
    for stream, what, case, exp, obs in out['fails']:
        ctx.fail(stream, what, case, expected=exp, observed=obs, how=HOW)
    reqs.append({'op': 'members', 'classes': table['classes'], 'modnames': out['dotted'],
                 'queries': [[r['cls'], r['attr']] for r in table['refs']]})
    cases.append(out)


def compare_members(ctx, cases, answers):
    for c, a in zip(cases, answers):
        if isinstance(a, dict) and 'error' in a:
            raise common.InfraError('driver: %r' % a)
        src, table = c['src'], c['table']
        bypos = {(l, col): q for l, col, q in c.get('bypos', [])}
        for k, r in enumerate(table['refs']):
            res = c['resolved'][k]
            model = a['full'][k]
            if res['infer'] is None:
                continue
            impl = sorted({x[0] for x in res['infer']})
            ctx.count('member-fullname', (src, k), nontrivial=model is not None,
                      bucket='%s: %s' % (r['form'], 'not found' if model is None else
                                         'found in the receiver\'s class' if a['found'][k] == r['cls'] else
                                         'found in class %d of the mro' % min(a['mro'][r['cls']].index(a['found'][k]), 4)))
            if impl != ([model] if model is not None else []):
                ctx.tie_broken('correspondence:member_full_name',
                               short({'source': src, 'reference': r, 'jedi': impl, 'model': model}, 1500))
            # python-side spec of the model: __qualname__ of the object the statement jedi names created
            if model is not None and 'modname' in c:
                for full, typ, line, col in res['infer']:
                    want = bypos.get((line, col))
                    if want is None:
                        continue
                    ctx.count('qualname/members', (src, k, line), nontrivial=True)
                    if c['modname'] + '.' + a['qualname'][k] != want and full == model:
                        ctx.tie_broken('correspondence:member_qualname',
                                       short({'source': src, 'reference': r, 'cpython': want,
                                              'model': a['qualname'][k]}, 1500))
                rt = c['runtime'][k]
                ctx.count('member-resolution', (src, k), nontrivial=False,
                          bucket='jedi names the definition CPython fetches' if rt == c['modname'] + '.' + a['qualname'][k]
                          else 'another definition (depth-first mro vs C3; not judged here)')


class _NameFinder(ast.NodeVisitor):
    """definition names (def/class names, parameters, assignment and comprehension targets) with
    the ast def/class ancestors of the defining construct"""

    def __init__(self, defs):
        self.idx = {(d['node'].lineno, d['node'].col_offset): i for i, d in enumerate(defs)}
        self.stack = []
        self.names = {}

    def _def(self, node):
        kw = 'class ' if isinstance(node, ast.ClassDef) else 'def '
        # the name token: ast has no position for it; it follows the keyword on the same line
        col = node.col_offset + (6 if isinstance(node, ast.AsyncFunctionDef) else 0) + len(kw)
        self.names[(node.lineno, col)] = list(self.stack)
        for d in node.decorator_list:
            self.visit(d)
        self.stack.append(self.idx[(node.lineno, node.col_offset)])
        for f in node._fields:
            if f == 'decorator_list':
                continue
            v = getattr(node, f)
            for x in (v if isinstance(v, list) else [v]):
                if isinstance(x, ast.AST):
                    self.visit(x)
        self.stack.pop()

    visit_FunctionDef = visit_AsyncFunctionDef = visit_ClassDef = _def

    def visit_arg(self, node):
        self.names[(node.lineno, node.col_offset)] = list(self.stack)
        self.generic_visit(node)

    def visit_Name(self, node):
        if isinstance(node.ctx, ast.Store):
            self.names[(node.lineno, node.col_offset)] = list(self.stack)


def describe(table, s):
    if s is None or isinstance(s, str) or s < 0:
        return s
    if s == 0:
        return 'module'
    sc = table['scopes'][s]
    return '%s %s (line %d)' % ({1: 'function', 2: 'class', 3: 'lambda', 4: 'comprehension'}[sc[0]], sc[7], sc[2][0])


# ---------------------------------------------------------------------------- main process

def absorb(ctx, out, reqs, cases):
    src, table = out['src'], out['table']
    tag = out['tag']
    for n in out['notes']:
        ctx.notes.append(n)
    for what, l, c, b in out['jedi']['raised']:
        ctx.count('raised', (src, what, l, c), nontrivial=False, bucket=b)
        if what == 'type':
            ctx.fail('oracle-context', 'get_context returned a name of the wrong type',
                     {'source': src, 'line': l, 'column': c, 'layout': out['layout']}, observed=b, how=HOW)
    if tag != 'corpus':
        ctx.count('table', src, nontrivial=True, bucket='ok' if out['table_ok'] else 'differs')
        if not out['table_ok']:
            raise common.InfraError('gen/nesting.py table differs from the parso tree for:\n' + src)
    for stream, n in out['judged'].items():
        for _ in range(1):
            ctx.count(stream, (src, stream), nontrivial=n > 0, bucket='judged=%d' % min(n // 50 * 50, 500),
                      sample={'source': src, 'judged': n})
        ctx.streams[stream]['evaluations'] += max(n - 1, 0)
        ctx.streams[stream]['nontrivial'] += max(n - 1, 0)
        ctx.evaluations += max(n - 1, 0)
    if 'collide' in out:
        d = out['dotted']
        ctx.count('fullname-collision', (src, layout_key(out['layout'])), nontrivial=out['collide'] > 0,
                  bucket='module path depth %d%s, definitions whose qualname repeats a component of it: %s'
                         % (len(d), ' (package)' if resolve_layout(out['layout'])[0].endswith('__init__.py') else '',
                            '0' if not out['collide'] else '1-3' if out['collide'] <= 3 else '4+'))
    for stream, what, case, exp, obs in out['fails']:
        ctx.fail(stream, what, case, expected=exp, observed=obs, how=HOW)
    reqs.append({'op': 'analyse', 'scopes': table['scopes'], 'leaves': table['leaves'],
                 'positions': [list(p) for p in out['positions']], 'modnames': out['dotted']})
    cases.append(out)


def compare(ctx, cases, answers):
    for c, a in zip(cases, answers):
        if isinstance(a, dict) and 'error' in a:
            raise common.InfraError('driver: %r' % a)
        src, table, J = c['src'], c['table'], c['jedi']
        stream = 'corpus' if c['tag'] == 'corpus' else 'context'
        if not a['wf']:
            ctx.tie_broken('model:WF', short({'source': src}, 1500))
        nhyp = 0
        for k, pos in enumerate(c['positions']):
            impl, model = J['context'][k], a['context'][k]
            if impl == 'raised':
                continue
            nhyp += 1 if a['hyp'][k] else 0
            if impl != model:
                c['disagrees'] = True
                ctx.tie_broken('correspondence:get_context',
                               short({'source': src, 'position': pos, 'jedi': describe(table, impl),
                                      'model': describe(table, model)}, 1500))
            elif a['hyp'][k] and model != a['body'][k]:
                ctx.tie_broken('theorem-vs-model:context_is_innermost_body_partial',
                               short({'source': src, 'position': pos}, 800))
        n = len(c['positions'])
        ctx.count(stream + '/' + c['tag'], (src, 'context'), nontrivial=True,
                  bucket='positions=%d' % (n // 200 * 200), sample={'source': src, 'positions': n})
        ctx.streams[stream + '/' + c['tag']]['evaluations'] += n - 1
        ctx.streams[stream + '/' + c['tag']]['nontrivial'] += n - 1
        ctx.evaluations += n - 1
        ctx.count('hypothesis-coverage', (src, 'hyp'), nontrivial=nhyp > 0,
                  bucket='positions under ContextHyp: %d%%' % (100 * nhyp // max(n, 1) // 10 * 10))
        # chains and full names
        lambdas = set(a['lambdas'])
        for li, chain, chyp, nlhyp, spec in zip(a['defs'], a['chain'], a['chainhyp'], a['nolambdahyp'], a['chainspec']):
            ctx.count('chain-hypothesis-coverage', (src, li), nontrivial=chyp,
                      bucket='ChainHyp' if chyp else 'excluded: lambda in a def/class header')
            if chyp and [s_ for s_ in chain if s_ not in lambdas] != spec:
                ctx.tie_broken('theorem-vs-model:parent_chain_eq_enclosing_partial', short({'source': src, 'leaf': li}, 800))
            if nlhyp and chain != spec:
                ctx.tie_broken('theorem-vs-model:parent_chain_exact', short({'source': src, 'leaf': li}, 800))
        names_raised = any(r[0] == 'get_names' for r in J['raised'])
        for li, chain, full, chyp in zip(a['defs'], a['chain'], a['full'], a['chainhyp']):
            d = J['defs'].get(str(li))
            if d is None and names_raised:
                # get_names itself raised on this file (real source files run into the sandbox's typeshed hole;
                # counted in `raised`, totality is C01's business): no definition to compare
                ctx.count('chain', (src, li), nontrivial=False, bucket='get_names raised')
                continue
            if d is None:
                # jedi does not list it (e.g. a name the generator marks as binding but jedi does not)
                ctx.tie_broken('correspondence:get_names', short({'source': src, 'leaf': table['leaves'][li]}, 800))
                continue
            if d.get('raised'):
                continue        # jedi raised on this definition (counted in `raised`; totality is C01's business)
            impl = [x[0] for x in d['chain']]
            ctx.count('chain', (src, li), nontrivial=len(chain) > 1, bucket='depth=%d' % min(len(chain), 6))
            if impl != chain:
                c['disagrees'] = True
                ctx.tie_broken('correspondence:parent_chain',
                               short({'source': src, 'definition': d, 'jedi': [describe(table, s) for s in impl],
                                      'model': [describe(table, s) for s in chain]}, 1500))
            # contract: types and names along the chain
            for (s, typ, name, _line, cfull) in d['chain']:
                if s is not None and s >= 0 and a['scopefull'][s] != cfull:
                    c['disagrees'] = True
                    ctx.tie_broken('correspondence:full_name_of_parent',
                                   short({'source': src, 'layout': c['layout'], 'scope': describe(table, s),
                                          'jedi': cfull, 'model': a['scopefull'][s]}, 1500))
                if s is not None and s >= 0:
                    sc = table['scopes'][s]
                    want = ('module', c['dotted'][-1]) if s == 0 else \
                        ('class' if sc[0] == 2 else 'function', sc[7])
                    if (typ, name) != want:
                        ctx.tie_broken('correspondence:parent_chain_types', short({'source': src, 'got': [typ, name], 'want': want}, 800))
            ctx.count('fullname', (src, li), nontrivial=full is not None,
                      bucket='None' if full is None else 'dotted-%d' % min(full.count('.'), 5))
            if d['full'] != full:
                c['disagrees'] = True
                ctx.tie_broken('correspondence:full_name',
                               short({'source': src, 'definition': d, 'jedi': d['full'], 'model': full}, 1500))
        for s, full in J['scopefull'].items():
            ctx.count('fullname-of-context', (src, s), nontrivial=True)
            if a['scopefull'][int(s)] != full:
                c['disagrees'] = True
                ctx.tie_broken('correspondence:full_name_of_context',
                               short({'source': src, 'scope': describe(table, int(s)), 'jedi': full,
                                      'model': a['scopefull'][int(s)]}, 1500))
        # python-side spec of the model vs CPython
        for key in ('runtime', 'coqual'):
            for s, q in c.get(key, {}).items():
                model_q = a['qualname'][int(s)]
                want = q[len(c['modname']) + 1:] if key == 'runtime' else q
                ctx.count('qualname/' + key, (src, s), nontrivial=True, bucket='locals' if '<locals>' in want else 'plain')
                if model_q != want or (key == 'runtime' and not q.startswith(c['modname'] + '.')) \
                        or (key == 'runtime' and c['modname'] != '.'.join(c['dotted'])):
                    ctx.tie_broken('correspondence:qualname',
                                   short({'source': src, 'scope': describe(table, int(s)), 'cpython': q,
                                          'model': model_q, 'module': c['modname']}, 1500))


def gen_items(ctx):
    rng = ctx.subrng('gen')
    items = []
    for w in WITNESSES:
        items.append({'prog': w, 'layout': 'flat', 'tag': 'witness'})
    items.append({'prog': WITNESSES[0], 'layout': 'mapped', 'tag': 'witness'})
    n = ctx.size(90, 6000)
    for i in range(n):
        layout = 'flat' if i % 4 else ['package', 'namespace', 'init', 'flat'][(i // 4) % 4]
        items.append({'prog': G.gen_program(rng, size=rng.choice([6, 10, 14])), 'layout': layout, 'tag': 'random'})
    items += collision_items(ctx, ctx.subrng('collide'), ctx.size(30, 1500))
    return items


def collision_items(ctx, rng, n_random, systematic=True):
    """the part of the domain where the module's dotted path and the qualname share spellings:
    (a) the deterministic family: every path shape of depth <= 3 over two spellings (module / package,
        regular / namespace parents) x three programs whose definitions are all called like the last or
        the first component; quick tier: the spellings rotate with the seed, thorough: all pairs;
    (b) random programs whose functions and classes share a small pool of spellings, in a random layout
        whose components come from the same pool"""
    items = []
    if systematic:
        pairs = [(x, y) for x in GL.DEF_NAMES for y in GL.DEF_NAMES if x != y]
        if ctx.tier == 'quick':
            k = int(ctx.seed) % len(pairs)
            pairs = [pairs[k], pairs[(k + 7) % len(pairs)]]
        for x, y in pairs:
            lays = GL.systematic_layouts(x, y)
            if ctx.tier == 'quick':
                lays = [l for j, l in enumerate(lays) if j % 2 == pairs.index((x, y)) % 2]
            for lay in lays:
                for tag, prog in GL.collision_programs(lay['dotted']):
                    items.append({'prog': prog, 'layout': lay, 'tag': tag})
    for _ in range(n_random):
        pools = GL.gen_pools(rng)
        items.append({'prog': G.gen_program(rng, size=rng.choice([6, 10, 14]), pools=pools),
                      'layout': GL.gen_layout(rng, pools), 'tag': 'random-collide'})
    return items


def corpus_items(ctx):
    """real source files: jedi's own api / inference modules (tables from the parso tree)"""
    rng = ctx.subrng('corpus')
    base = os.path.join(common.REPO, 'jedi')
    files = []
    for root, dirs, fs in os.walk(base):
        dirs[:] = sorted(d for d in dirs if d != 'third_party')
        for f in sorted(fs):
            if f.endswith('.py'):
                files.append(os.path.join(root, f))
    files = [f for f in files if os.path.getsize(f) < 60000]
    pick = rng.sample(files, min(len(files), ctx.size(4, 80)))
    return [{'file': f, 'layout': 'flat', 'tag': 'corpus', 'sample': '%s-%s' % (ctx.seed, f)} for f in pick]


def run(ctx):
    import time
    t0 = time.time()
    items = gen_items(ctx) + corpus_items(ctx)
    corpus_dir = os.path.join(common.CORPUS_DIR, 'C18')
    import json
    pre = []
    if os.path.isdir(corpus_dir):
        for f in sorted(os.listdir(corpus_dir)):
            if f.endswith('.json'):
                with open(os.path.join(corpus_dir, f)) as fh:
                    d = json.load(fh)
                pre.append({'prog': d['prog'], 'layout': d.get('layout', 'flat'), 'tag': d.get('tag', 'witness')})
    items = pre + items
    outs = common.parallel_map('props.c18', 'analyse', items, jobs=14)
    mitems = member_items(ctx, ctx.subrng('members'), ctx.size(60, 3000))
    mouts = common.parallel_map('props.c18', 'analyse_members', mitems, jobs=14)
    fixed_probes(ctx)
    t1 = time.time()
    reqs, cases = [], []
    for out in outs:
        absorb(ctx, out, reqs, cases)
    mreqs, mcases = [], []
    for out in mouts:
        absorb_members(ctx, out, mreqs, mcases)
    if ctx.model_ok:
        from concurrent.futures import ThreadPoolExecutor
        k = 8
        chunks = [reqs[i::k] for i in range(k)]
        with ThreadPoolExecutor(k + 1) as ex:
            parts = list(ex.map(lambda ch: common.run_driver('C18', ch), chunks + [mreqs]))
        manswers = parts.pop()
        answers = [None] * len(reqs)
        for i, part in enumerate(parts):
            answers[i::k] = part
        compare_members(ctx, mcases, manswers)
        t2 = time.time()
        compare(ctx, cases, answers)
        ctx.notes.append('phases: jedi+oracles %.1fs, lean driver %.1fs, compare %.1fs' % (t1 - t0, t2 - t1, time.time() - t2))
    else:
        ctx.notes.append('model did not build: correspondence skipped, oracle only')
    if (ctx.broken or not ctx.model_ok) and not any(ctx.violations):
        search(ctx)
    ctx.obligations['assumptions'] = [
        'parso: tokeniser and parser; BaseNode.get_leaf_for_position(include_prefixes=True) returns the first leaf '
        'whose end_pos is not before the position; get_previous_leaf is the previous leaf in source order',
        'the leaf/scope table (positions, parent_scope of every leaf and scope node) and the printed source are derived '
        'from one abstract program by harness/gen/nesting.py; the table is compared with the parso tree on every program',
        'ModuleValue.string_names is a parameter of the model (the dotted path below the project root); the oracle '
        'imports the scratch project with CPython to obtain __module__',
        'members through references: class statements with plain / async methods and nested classes, bases spelled as '
        'bare sibling names or dotted paths of finished top-level classes; no self attributes, descriptors, decorators, '
        'metaclasses or __getattr__ (ClassFilter / InstanceClassFilter order is taken from the mro listing)',
        'fragment: module/def/async def/class/lambda/comprehension scopes, decorators, defaults, annotations, bases, '
        'one-line suites, if/else blocks, bracketed continuation lines, blank and comment lines, trailing blanks; '
        'no imports, no strings spanning lines, no backslash continuations, no tabs',
    ]


def search(ctx):
    """failing-input search after a broken obligation / correspondence: more programs, judged by
    the direct oracle only"""
    rng = ctx.subrng('search')
    items = [{'prog': G.gen_program(rng, size=rng.choice([6, 10, 14])), 'layout': 'flat', 'tag': 'random'}
             for _ in range(ctx.size(200, 2000))]
    items += collision_items(ctx, rng, ctx.size(100, 1000), systematic=False)
    outs = common.parallel_map('props.c18', 'analyse', items, jobs=14)
    n = 0
    for out in outs:
        for stream, k in out['judged'].items():
            ctx.count('search/' + stream, (out['src'], stream), nontrivial=k > 0)
        for stream, what, case, exp, obs in out['fails']:
            n += 1
            ctx.fail(stream, what, case, expected=exp, observed=obs, how=HOW)
    mitems = member_items(ctx, rng, ctx.size(150, 2000))
    for out in common.parallel_map('props.c18', 'analyse_members', mitems, jobs=14):
        ctx.count('search/oracle-fullname-ref', (out['src'], 'members'), nontrivial=out['judged'] > 0)
        for stream, what, case, exp, obs in out['fails']:
            n += 1
            ctx.fail(stream, what, case, expected=exp, observed=obs, how=HOW)
    ctx.notes.append('failing-input search: %d programs, %d oracle failures' % (len(items) + len(mitems), n))


N_ = G.N
D = G.D
B = lambda x, e=None: {'k': 'bind', 'x': x, 'e': e or {'e': 'num'}}
E = lambda e: {'k': 'expr', 'e': e}
LAM = lambda body, params=(): {'e': 'lambda', 'params': [[x, None] for x in params], 'body': body}
# programs behind the Lean witness tables: the excluded shape (continuation line; kept alive so the
# KNOWN-FINDING line stays honest) and the shapes of the repaired findings, which the oracle now demands
# at every position (regression inputs; more of them in corpus/C18/fixed-*.json and FIXED_PROBES)
WITNESSES = [
    # control + mapped layout: class with method and nested class
    {'body': G.PRELUDE + [D('class', 'K', [D('function', 'f', [B('a')], params=[{'name': 'p'}]),
                                           D('class', 'L', [B('b')])])], 'trail': 0},
    # lambda directly in a class body (repaired: C18-lambda-directly-in-class-body)
    {'body': G.PRELUDE + [D('class', 'K', [B('a', LAM(N_('b'), ['c']))])], 'trail': 0},
    # comprehension variable inside a lambda directly in a class body (repaired: the parent chain visits K)
    {'body': G.PRELUDE + [D('class', 'K', [B('a', LAM({'e': 'comp', 'form': 'list', 'elt': N_('b'), 'var': 'b',
                                                       'iter': N_('it'), 'cond': None}))])], 'trail': 0},
    # async def: body columns between `async` and `def` (repaired: C18-async-def-body-column)
    {'body': G.PRELUDE + [D('function', 'f', [B('a'), E(N_('a'))], is_async=True)], 'trail': 0},
    # comprehension variable inside a lambda in the header of a method (Props.C18.header_lambda_chain_witness)
    {'body': G.PRELUDE + [D('class', 'K', [D('function', 'f', [{'k': 'pass'}], oneline=True, params=[
        {'name': 'q', 'default': LAM({'e': 'comp', 'form': 'list', 'elt': N_('b'), 'var': 'b', 'iter': N_('it'),
                                      'cond': None})}])])], 'trail': 0},
    # continuation line left of the enclosing def
    {'body': G.PRELUDE + [D('function', 'f', [E({'e': 'brk', 'inner': N_('a'), 'col': 0, 'ccol': 4})])], 'trail': 0},
]


# exact answers on the inputs of the repaired findings (C18-async-def-body-column,
# C18-lambda-directly-in-class-body[-parent-chain]): (source, {line: names of get_context at columns
# 0..len(line)}, {(line, column) of a definition: its parent() chain})
_M = 'mod_a'
FIXED_PROBES = [
    ('async def f():\n    a = ()\n',
     {1: [_M] * 7 + ['f'] * 8, 2: [_M] + ['f'] * 10},
     {(2, 4): [('function', 'f'), ('module', _M)]}),
    ('def dec(f): return f\nclass K:\n    @dec\n    async def f(self):\n        a = ()\n',
     {3: [_M] + ['K'] * 8, 4: [_M] + ['K'] * 10 + ['f'] * 12, 5: [_M] + ['K'] * 4 + ['f'] * 10},
     {(5, 8): [('function', 'f'), ('class', 'K'), ('module', _M)]}),
    ('async def f():\n    async def g():\n        a = ()\n    b = ()\n',
     {2: [_M] + ['f'] * 10 + ['g'] * 8, 3: [_M] + ['f'] * 4 + ['g'] * 10, 4: [_M] + ['f'] * 10},
     {(3, 8): [('function', 'g'), ('function', 'f'), ('module', _M)]}),
    ('class K:\n    a = lambda c: b\n',
     {2: [_M] + ['K'] * 19},
     {(2, 15): [('class', 'K'), ('module', _M)]}),
    ('class K:\n    a = lambda: [b for b in it]\n',
     {2: [_M] + ['K'] * 31},
     {(2, 23): [('function', '<lambda>'), ('class', 'K'), ('module', _M)]}),
    ('def g():\n    class K:\n        a = lambda: (lambda: [b for b in it])\n',
     {3: [_M] + ['g'] * 4 + ['K'] * 41},
     {(3, 36): [('function', '<lambda>'), ('function', '<lambda>'), ('class', 'K'), ('function', 'g'), ('module', _M)]}),
]


def fixed_probes(ctx):
    import jedi
    root = os.path.join(SCRATCH, 'probe-%d' % os.getpid())
    shutil.rmtree(root, ignore_errors=True)
    os.makedirs(root)
    try:
        for src, contexts, chains in FIXED_PROBES:
            path = os.path.join(root, 'mod_a.py')
            with open(path, 'w', encoding='utf-8') as f:
                f.write(src)
            lines = src.split('\n')
            for line, want in sorted(contexts.items()):
                assert len(want) == len(lines[line - 1]) + 1, (src, line)
                for col, w in enumerate(want):
                    script = jedi.Script(src, path=path, project=jedi.Project(root))
                    try:
                        got = script.get_context(line, col).name
                    except Exception as e:
                        got = 'raised %s' % type(e).__name__
                    ctx.count('fixed-probe', (src, line, col), nontrivial=True, bucket='get_context')
                    if got != w:
                        ctx.fail('oracle-context', 'get_context is not the innermost def/class containing the position '
                                 '(input of a repaired finding)',
                                 {'source': src, 'line': line, 'column': col, 'layout': 'flat', 'shape': 'fixed-probe'},
                                 expected=w, observed={'get_context': got}, how=HOW)
            script = jedi.Script(src, path=path, project=jedi.Project(root))
            names = {(n.line, n.column): n for n in script.get_names(all_scopes=True, definitions=True)}
            for (line, col), want in sorted(chains.items()):
                got = []
                try:
                    n = names[(line, col)].parent()
                    while n is not None and len(got) < 50:
                        got.append((n.type, n.name))
                        n = n.parent()
                except Exception as e:
                    got.append('raised %s' % type(e).__name__)
                ctx.count('fixed-probe', (src, line, col, 'chain'), nontrivial=True, bucket='parent-chain')
                if got != want:
                    ctx.fail('oracle-chain', 'parent() chain is not the lexically enclosing scopes then the module '
                             '(input of a repaired finding)',
                             {'source': src, 'line': line, 'column': col, 'layout': 'flat', 'shape': 'fixed-probe'},
                             expected=[list(x) for x in want], observed={'chain': [list(x) if isinstance(x, tuple) else x for x in got]},
                             how=HOW)
    finally:
        shutil.rmtree(root, ignore_errors=True)


def replay(ctx, payload):
    """exit 1 = the recorded failure is reproduced on the code under test"""
    import jedi
    inp = payload['input']
    layout = inp.get('layout', 'flat')
    rel, extra, dotted = resolve_layout(layout)
    root = os.path.join(SCRATCH, 'replay-%d' % os.getpid())
    shutil.rmtree(root, ignore_errors=True)
    rc = 0
    try:
        for e in extra + [rel]:
            p = os.path.join(root, e)
            os.makedirs(os.path.dirname(p), exist_ok=True)
            with open(p, 'w', encoding='utf-8') as f:
                f.write(inp['source'] if e == rel else '')
        path = os.path.join(root, rel)
        script = jedi.Script(inp['source'], path=path, project=jedi.Project(root))
        print('project root %s: file %s (+ %s), module %s' % (root, rel, extra, '.'.join(dotted)))
        print(inp['source'])
        d = script.get_context(inp['line'], inp['column'])
        print('get_context(%d, %d) -> %s %s line=%s full_name=%s' % (inp['line'], inp['column'], d.type, d.name, d.line, d.full_name))
        for n in script.get_names(all_scopes=True, definitions=True):
            if (n.line, n.column) == (inp['line'], inp['column']):
                chain = []
                p = n
                while p is not None and len(chain) < 50:
                    p = p.parent()
                    if p is not None:
                        chain.append((p.type, p.name, p.line, p.full_name))
                print('definition %s %s: full_name=%s parent chain=%s' % (n.type, n.name, n.full_name, chain))
        print('expected:', payload.get('expected'), ' observed at record time:', payload.get('observed'))
        if payload.get('stream') == 'oracle-fullname' and str(inp.get('route', '')).startswith('ref-'):
            # the property, evaluated again on the Names the reference at (line, column) resolves to
            modname, bypos = name_positions(inp['source'], root, rel, dotted)
            ref = {'line': inp['line'], 'column': inp['column']}
            resolved, raised = resolve_refs(script, path, [ref])
            print('infer/goto at (%d, %d): %r %r' % (inp['line'], inp['column'], resolved[0], raised))
            fails, n = judge_refs(inp['source'], layout, [ref], resolved, bypos if modname is not None else {})
            for f in fails:
                print('CPython: %r   jedi: %r' % (f[3], f[4]))
            if fails:
                print('REPRODUCED: full_name of the definition the reference resolves to differs from '
                      '__module__ + "." + __qualname__ (%d Names judged)' % n)
                rc = 1
            else:
                print('not reproduced (%d Names judged)' % n)
        elif payload.get('stream') == 'oracle-fullname':
            # the property, evaluated again: CPython's __module__ + '.' + __qualname__ of the object defined at
            # (line, column) vs every full_name jedi hands out for it
            defs = py_defs(inp['source'])
            modname, objs = import_objects(root, rel, dotted, defs)
            finder = _NameFinder(defs)
            finder.visit(ast.parse(inp['source']))
            want = None
            for i_, d_ in enumerate(defs):
                kw = 6 if d_['async'] else 0
                col = d_['start'][1] + kw + (6 if d_['kind'] == 'class' else 4)
                if (d_['start'][0], col) == (inp['line'], inp['column']) and modname is not None:
                    want = objs.get(i_)
            got = {}
            for n in script.get_names(all_scopes=True, definitions=True):
                if (n.line, n.column) == (inp['line'], inp['column']):
                    got['get_names'] = n.full_name
                    for r in script.infer(n.line, n.column):
                        if (r.line, r.column) == (n.line, n.column):
                            got['infer'] = r.full_name
                p = n.parent()
                while p is not None:
                    if (p.line, p.column) == (inp['line'], inp['column']):
                        got['parent'] = p.full_name
                    p = p.parent()
            lines = inp['source'].split('\n')
            for li in range(inp['line'], len(lines) + 1):
                for c in range(len(lines[li - 1]) + 1):
                    try:
                        x = script.get_context(li, c)
                    except Exception:
                        continue
                    if (x.line, x.column) == (inp['line'], inp['column']):
                        got['get_context'] = x.full_name
            print('CPython: %r   jedi full_name by route: %r' % (want, got))
            bad = {k: v for k, v in got.items() if v != want}
            if want is not None and bad:
                print('REPRODUCED: full_name differs from __module__ + "." + __qualname__ via', sorted(bad))
                rc = 1
            else:
                print('not reproduced')
    finally:
        shutil.rmtree(root, ignore_errors=True)
    return rc

"""worker for common.parallel_map: python worker.py <module> <func> <in.json> <out.json>"""
import importlib
import json
import sys

if __name__ == '__main__':
    module, func, inp, outp = sys.argv[1:5]
    f = getattr(importlib.import_module(module), func)
    with open(inp) as fh:
        items = json.load(fh)
    out = [f(x) for x in items]
    with open(outp, 'w') as fh:
        json.dump(out, fh)

"""worker for common.parallel_map: python worker.py <module> <func> <in.json> <out.json>"""
import importlib
import json
import os
import sys

# every worker process gets its own parso/jedi pickle cache below the run's private cache home:
# cold processes racing on one cache directory corrupt it (parso writes the pickles non-atomically
# and tolerates only a missing file)
if os.environ.get('XDG_CACHE_HOME'):
    os.environ['XDG_CACHE_HOME'] = os.path.join(os.environ['XDG_CACHE_HOME'], 'worker-%d' % os.getpid())
    os.makedirs(os.environ['XDG_CACHE_HOME'], exist_ok=True)

if __name__ == '__main__':
    module, func, inp, outp = sys.argv[1:5]
    f = getattr(importlib.import_module(module), func)
    with open(inp) as fh:
        items = json.load(fh)
    out = [f(x) for x in items]
    with open(outp, 'w') as fh:
        json.dump(out, fh)

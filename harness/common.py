"""Shared machinery for every ./check run: context, evidence, replays,
known findings, Lean build / audit / driver plumbing.

Nothing in here imports jedi; the per-property modules do.
"""
import fcntl
import hashlib
import json
import os
import random
import re
import subprocess
import sys
import time
import traceback

VERIF = os.path.dirname(os.path.dirname(os.path.abspath(__file__)))
REPO = os.environ.get('VERIF_REPO', '/repo')
LEAN_DIR = os.path.join(VERIF, 'lean')
EVIDENCE_DIR = os.path.join(VERIF, 'evidence')
REPLAY_DIR = os.path.join(VERIF, 'replays')
CORPUS_DIR = os.path.join(VERIF, 'corpus')
KNOWN_FINDINGS = os.path.join(VERIF, 'known_findings.json')
ALLOWED_AXIOMS = {'propext', 'Classical.choice', 'Quot.sound'}
FORBIDDEN = re.compile(
    r'sorry|\badmit\b|^axiom |native_decide|bv_decide|implemented_by|unsafe |maxHeartbeats 0')

TRUSTED_BASE = [
    'Lean 4.33.0 kernel (lake build; thorough tier additionally leanchecker)',
    'axioms: subset of {propext, Classical.choice, Quot.sound}, audited by #print axioms on every property theorem each run',
    'no native_decide / bv_decide / sorry / own axioms (grep of lean/ each run)',
    'translator/extract.py (python ast walk over /repo) producing lean/JediModel/Gen/*.lean',
    'correspondence harness: generators, canonicalisers, JSON line protocol, Lean driver parser',
]


class InfraError(Exception):
    """Our machinery failed (exit 2) - never a VIOLATION."""


class TieBroken(Exception):
    """Translator could not find the expected shape in the source, a proof
    obligation no longer builds, or model and code disagree."""

    def __init__(self, what, detail=''):
        super().__init__(what)
        self.what = what
        self.detail = detail


def log(*a):
    print(*a, file=sys.stderr, flush=True)


def sh(cmd, cwd=None, timeout=1800, env=None, input=None):
    e = dict(os.environ)
    if env:
        e.update(env)
    p = subprocess.run(cmd, cwd=cwd, env=e, input=input, capture_output=True,
                       text=True, timeout=timeout)
    return p.returncode, p.stdout, p.stderr


class _Lock:
    def __init__(self, name):
        self.path = os.path.join(LEAN_DIR, '.' + name + '.lock')

    def __enter__(self):
        self.f = open(self.path, 'w')
        fcntl.flock(self.f, fcntl.LOCK_EX)

    def __exit__(self, *a):
        fcntl.flock(self.f, fcntl.LOCK_UN)
        self.f.close()


def write_if_changed(path, content):
    try:
        with open(path, encoding='utf-8') as f:
            if f.read() == content:
                return False
    except FileNotFoundError:
        pass
    os.makedirs(os.path.dirname(path), exist_ok=True)
    tmp = path + '.tmp%d' % os.getpid()
    with open(tmp, 'w', encoding='utf-8') as f:
        f.write(content)
    os.replace(tmp, path)
    return True


# ---------------------------------------------------------------- Lean side

def lake_build(targets, timeout=1500):
    """Returns (ok, output)."""
    with _Lock('lake'):
        rc, out, err = sh(['lake', 'build'] + list(targets), cwd=LEAN_DIR, timeout=timeout)
    return rc == 0, out + err


_THEOREM_RE = re.compile(r'^\s*(?:protected\s+|private\s+)?theorem\s+([^\s:({\[]+)', re.M)
_NAMESPACE_RE = re.compile(r'^\s*namespace\s+(\S+)|^\s*end\s+(\S+)', re.M)


def strip_lean_comments(src):
    out = []
    i = 0
    depth = 0
    n = len(src)
    while i < n:
        if src.startswith('/-', i):
            depth += 1
            i += 2
            continue
        if depth and src.startswith('-/', i):
            depth -= 1
            i += 2
            continue
        if depth:
            if src[i] == '\n':
                out.append('\n')
            i += 1
            continue
        if src.startswith('--', i):
            while i < n and src[i] != '\n':
                i += 1
            continue
        if src[i] == '"':
            j = i + 1
            while j < n and src[j] != '"':
                j += 2 if src[j] == '\\' else 1
            out.append('""')
            i = j + 1
            continue
        out.append(src[i])
        i += 1
    return ''.join(out)


def theorems_of(lean_file):
    """Fully qualified theorem names declared in a Props file."""
    with open(lean_file, encoding='utf-8') as f:
        src = strip_lean_comments(f.read())
    names = []
    ns = []
    for line in src.splitlines():
        m = re.match(r'\s*namespace\s+(\S+)', line)
        if m:
            ns.append(m.group(1))
            continue
        m = re.match(r'\s*end\s+(\S+)\s*$', line)
        if m and ns and ns[-1] == m.group(1):
            ns.pop()
            continue
        m = _THEOREM_RE.match(line)
        if m:
            names.append('.'.join(ns + [m.group(1)]))
    return names


def grep_forbidden(paths):
    hits = []
    for p in paths:
        with open(p, encoding='utf-8') as f:
            src = strip_lean_comments(f.read())
        for i, line in enumerate(src.splitlines(), 1):
            if FORBIDDEN.search(line):
                hits.append('%s:%d: %s' % (p, i, line.strip()))
    return hits


def lean_sources():
    res = []
    for root, dirs, files in os.walk(LEAN_DIR):
        dirs[:] = [d for d in dirs if d != '.lake']
        for f in files:
            if f.endswith('.lean'):
                res.append(os.path.join(root, f))
    return sorted(res)


def audit(pid):
    """#print axioms on every theorem of Props/<pid>.lean.
    Returns dict theorem -> sorted list of axioms."""
    props = os.path.join(LEAN_DIR, 'JediModel', 'Props', pid + '.lean')
    names = theorems_of(props)
    if not names:
        raise InfraError('no theorems in ' + props)
    body = 'import JediModel.Props.%s\n' % pid + ''.join(
        '#print axioms %s\n' % n for n in names)
    rc, out, err = sh(['lake', 'env', 'lean', '--stdin'], cwd=LEAN_DIR, input=body, timeout=900)
    if rc != 0:
        raise InfraError('audit failed to run: ' + out + err)
    res = {}
    # "'name' depends on axioms: [a, b]" or "'name' does not depend on any axioms"
    text = out.replace('\n ', ' ').replace('\n  ', ' ')
    for m in re.finditer(r"'([^']+)' depends on axioms: \[([^\]]*)\]", text, re.S):
        res[m.group(1)] = sorted(a.strip() for a in m.group(2).replace('\n', ' ').split(',') if a.strip())
    for m in re.finditer(r"'([^']+)' does not depend on any axioms", text):
        res[m.group(1)] = []
    missing = [n for n in names if n not in res]
    if missing:
        raise InfraError('audit: no axiom report for %s\n%s' % (missing, out))
    return res


def run_driver(pid, requests, timeout=1500):
    """Pipe JSON requests (one per line) through lean/Drivers/<pid>.lean.
    Returns the list of decoded JSON answers."""
    if not requests:
        return []
    data = ''.join(json.dumps(r, ensure_ascii=True) + '\n' for r in requests)
    rc, out, err = sh(['lake', 'env', 'lean', '--run', 'JediModel/Drivers/%s.lean' % pid],
                      cwd=LEAN_DIR, input=data, timeout=timeout)
    if rc != 0:
        raise InfraError('driver %s failed: %s' % (pid, (out + err)[-2000:]))
    lines = [l for l in out.split('\n') if l.strip()]
    if len(lines) != len(requests):
        raise InfraError('driver %s answered %d lines for %d requests: %s'
                         % (pid, len(lines), len(requests), (out + err)[-2000:]))
    return [json.loads(l) for l in lines]


def run_driver_parallel(pid, requests, jobs=8, timeout=1500):
    if len(requests) < 4000 or jobs <= 1:
        return run_driver(pid, requests, timeout)
    from concurrent.futures import ThreadPoolExecutor
    n = len(requests)
    size = (n + jobs - 1) // jobs
    chunks = [requests[i:i + size] for i in range(0, n, size)]
    with ThreadPoolExecutor(len(chunks)) as ex:
        parts = list(ex.map(lambda c: run_driver(pid, c, timeout), chunks))
    return [x for p in parts for x in p]


# ------------------------------------------------------------ known findings

def load_known():
    """known_findings.json (the committed file) plus any not-yet-merged known_findings.d/*.json
    (tools/mkknown.py merges them; reading both keeps a work-in-progress tree self-contained)"""
    try:
        with open(KNOWN_FINDINGS, encoding='utf-8') as f:
            k = json.load(f)
    except FileNotFoundError:
        k = {'findings': [], 'fixed': []}
    have = {f['id'] for f in k.get('findings', [])}
    import glob
    for p in sorted(glob.glob(os.path.join(VERIF, 'known_findings.d', '*.json'))):
        try:
            with open(p, encoding='utf-8') as f:
                d = json.load(f)
        except (OSError, ValueError):
            continue
        for f_ in d.get('findings', []):
            if f_['id'] not in have:
                k.setdefault('findings', []).append(f_)
                have.add(f_['id'])
    return k


# ------------------------------------------------------------------ context

class Ctx:
    def __init__(self, pid, tier, seed):
        self.pid = pid
        self.tier = tier
        self.seed = seed
        self.rng = random.Random('%s-%s' % (pid, seed))
        self.t0 = time.time()
        self.violations = []        # dicts: kind, what, input, ...
        self._viol_keys = {}
        self.known_hits = {}        # finding id -> description
        self.broken = []            # TieBroken items (theorem/correspondence names)
        self.evaluations = 0
        self.distinct = set()
        self.samples = []
        self.hist = {}
        self.streams = {}
        self.obligations = {}
        self.notes = []
        self.known = [k for k in load_known().get('findings', []) if k['property'] == pid]
        self._replay_n = 0

    @property
    def quick(self):
        return self.tier == 'quick'

    def size(self, quick, thorough):
        return quick if self.quick else thorough

    def subrng(self, name):
        return random.Random('%s-%s-%s' % (self.pid, self.seed, name))

    # --- coverage accounting
    def count(self, stream, case_key=None, nontrivial=True, sample=None, bucket=None):
        self.evaluations += 1
        s = self.streams.setdefault(stream, {'evaluations': 0, 'nontrivial': 0})
        s['evaluations'] += 1
        if nontrivial:
            s['nontrivial'] += 1
            if case_key is not None:
                h = hashlib.blake2b(repr((stream, case_key)).encode('utf-8', 'surrogatepass'),
                                    digest_size=8).digest()
                self.distinct.add(h)
        if bucket is not None:
            d = self.hist.setdefault(stream, {})
            d[bucket] = d.get(bucket, 0) + 1
        if sample is not None:
            k = sum(1 for x in self.samples if x.get('stream') == stream)
            if k < 3:
                self.samples.append({'stream': stream, 'case': sample})

    # --- findings
    def match_known(self, stream, case, observed):
        """A known finding matches by (stream, matcher) where matcher is a dict of
        key->value that must all be equal in `case` / `observed` (subset match),
        or `contains` substrings of repr(observed)."""
        for k in self.known:
            m = k['match']
            if m.get('stream') not in (None, stream):
                continue
            ok = True
            for key, val in m.get('case', {}).items():
                if not (isinstance(case, dict) and case.get(key) == val):
                    ok = False
                    break
            if ok:
                for sub in m.get('observed_contains', []):
                    if sub not in json.dumps(observed, ensure_ascii=False, default=str):
                        ok = False
                        break
            if ok:
                return k
        return None

    def fail(self, stream, what, case, expected=None, observed=None, kind='property', how=None):
        """Record a property failure on the real code (a concrete failing input)."""
        k = self.match_known(stream, case, observed)
        if k is not None:
            self.known_hits[k['id']] = k['description']
            return False
        shape = case.get('shape') if isinstance(case, dict) else None
        key = (stream, what, shape)
        n = self._viol_keys.get(key, 0)
        self._viol_keys[key] = n + 1
        if n < 3 and len(self._viol_keys) <= 40:
            self.violations.append({'kind': kind, 'stream': stream, 'what': what, 'input': case,
                                    'expected': expected, 'observed': observed,
                                    'how_to_replay': how})
        else:
            self.violations.append(None)
        return True

    def tie_broken(self, name, detail=''):
        """A theorem / translator obligation / correspondence that no longer checks."""
        for b in self.broken:
            if b['name'] == name:
                b['count'] = b.get('count', 1) + 1
                return
        self.broken.append({'name': name, 'detail': detail[-4000:], 'count': 1})

    # --- output
    def write_replay(self, payload):
        os.makedirs(REPLAY_DIR, exist_ok=True)
        self._replay_n += 1
        path = os.path.join(REPLAY_DIR, '%s-%s-%d.json' % (self.pid, self.seed, self._replay_n))
        with open(path, 'w', encoding='utf-8') as f:
            json.dump(payload, f, indent=1, ensure_ascii=True, default=repr)
        return os.path.relpath(path, VERIF)

    def finish(self):
        """Writes evidence, prints result lines, returns the exit code."""
        wall = time.time() - self.t0
        for kid, desc in sorted(self.known_hits.items()):
            print('KNOWN-FINDING: property=%s %s: %s' % (self.pid, kid, desc))
        viol = [v for v in self.violations if v is not None]
        lines = []
        if viol:
            # one replay file per failing stream (first failure of each), all in one file
            by = {}
            for v in viol:
                shape = v['input'].get('shape') if isinstance(v['input'], dict) else None
                by.setdefault((v['stream'], v['what'], shape), v)
            for (stream, what, _shape), v in list(by.items())[:20]:
                path = self.write_replay({
                    'property': self.pid, 'kind': v['kind'], 'stream': stream, 'what': what,
                    'input': v['input'], 'expected': v['expected'], 'observed': v['observed'],
                    'no_longer_checks': [b['name'] for b in self.broken],
                    'how_to_replay': v['how_to_replay'] or
                    './check %s --replay <this file>' % self.pid,
                    'seed': self.seed, 'tier': self.tier,
                })
                lines.append('VIOLATION property=%s replay=%s' % (self.pid, path))
        elif self.broken:
            path = self.write_replay({
                'property': self.pid, 'kind': 'proof-or-correspondence-broken',
                'no_longer_checks': self.broken,
                'note': 'search over model and implementation found no input on which the '
                        'property fails; the property is no longer shown to hold',
                'seed': self.seed, 'tier': self.tier,
            })
            lines.append('VIOLATION property=%s replay=%s no-failing-input-found' % (self.pid, path))
        ob = self.obligations
        cov = {
            'obligations': ob.get('obligations', 0),
            'discharged': ob.get('discharged', 0),
            'checker_cmd': ob.get('checker_cmd', ''),
            'trusted_base': TRUSTED_BASE + ob.get('trusted_extra', []),
            'theorems': ob.get('theorems', {}),
            'translator_obligations': ob.get('translator', []),
            'evaluations': self.evaluations,
            'distinct_nontrivial': len(self.distinct),
            'rule': ob.get('rule', 'a case is one (input, operation) pair pushed through both the '
                           'Lean model and the real jedi code, or one direct-oracle evaluation on '
                           'the real code; non-trivial = it reaches the modelled mechanism (per-stream '
                           'definition in `streams`); distinct by hash of the canonical case'),
            'streams': self.streams,
            'input_histogram': self.hist,
            'samples': self.samples[:40] or [{'note': 'no generated cases in this run'}],
            'known_findings_hit': sorted(self.known_hits),
            'broken': self.broken,
            'exhaustive': bool(ob.get('exhaustive', False)),
            'notes': self.notes,
        }
        ev = {
            'property_id': self.pid, 'tier': self.tier, 'seed': self.seed, 'level': 'proof',
            'coverage': cov,
            'assumptions': ob.get('assumptions', []),
            'wall_s': round(wall, 2),
            'violations': len(self.violations) + (1 if (self.broken and not viol) else 0),
        }
        os.makedirs(EVIDENCE_DIR, exist_ok=True)
        with open(os.path.join(EVIDENCE_DIR, self.pid + '.json'), 'w', encoding='utf-8') as f:
            json.dump(ev, f, indent=1, ensure_ascii=True, default=repr)
        for l in lines:
            print(l)
        sys.stdout.flush()
        return 1 if lines else 0


def short(x, n=300):
    s = x if isinstance(x, str) else json.dumps(x, ensure_ascii=True, default=repr)
    return s if len(s) <= n else s[:n] + '...'


def exc_site(e):
    """(class name, innermost jedi/parso frame as file:function) of an exception."""
    tb = traceback.extract_tb(e.__traceback__)
    site = ''
    for fr in reversed(tb):
        fn = fr.filename.replace('\\', '/')
        if '/jedi/' in fn or '/parso/' in fn:
            site = '%s:%s' % (fn.split('/jedi/')[-1] if '/jedi/' in fn else 'parso/' + fn.split('/parso/')[-1], fr.name)
            break
    return type(e).__name__, site


# ------------------------------------------------------------ process-parallel map (no fork)

def parallel_map(module, func, items, jobs=14, timeout=3000):
    """Runs `module.func(item)` for every item in `jobs` fresh interpreter processes
    (harness/worker.py), preserving order. Items and results must be JSON-able.
    Fresh processes (not fork): jedi starts helper subprocesses and threads."""
    import tempfile
    if not items:
        return []
    jobs = max(1, min(jobs, (len(items) + 19) // 20))
    size = (len(items) + jobs - 1) // jobs
    tmp = tempfile.mkdtemp(prefix='verif-pmap-', dir='/var/tmp')
    procs = []
    try:
        for k in range(jobs):
            chunk = items[k * size:(k + 1) * size]
            if not chunk:
                continue
            inp = os.path.join(tmp, 'in%d.json' % k)
            outp = os.path.join(tmp, 'out%d.json' % k)
            with open(inp, 'w') as f:
                json.dump(chunk, f)
            env = dict(os.environ)
            env['PYTHONPATH'] = os.pathsep.join([REPO, os.path.join(VERIF, 'harness'), VERIF])
            p = subprocess.Popen([sys.executable, os.path.join(VERIF, 'harness', 'worker.py'),
                                  module, func, inp, outp], env=env, cwd=VERIF,
                                 stdout=subprocess.DEVNULL, stderr=subprocess.PIPE, text=True)
            procs.append((p, outp))
        res = []
        for p, outp in procs:
            try:
                _, err = p.communicate(timeout=timeout)
            except subprocess.TimeoutExpired:
                p.kill()
                raise InfraError('parallel worker timed out')
            if p.returncode != 0:
                raise InfraError('parallel worker failed: ' + (err or '')[-2000:])
            with open(outp) as f:
                res.extend(json.load(f))
        return res
    finally:
        for p, _ in procs:
            if p.poll() is None:
                p.kill()
        import shutil
        shutil.rmtree(tmp, ignore_errors=True)
